"""C01 - Generated random fields reproduce the model covariance."""

import copy
import math

import numpy as np
from hypothesis import strategies as st

import common
from common import Sub, Violation, lib, require, quiet
import gens
from gens import build_model, logfloat
from oracles import geometry as geo

import gstools as gs
from gstools.field.generator import Fourier, IncomprRandMeth, RandMeth

ID = "C01"
LEVEL = "exploration"
RULE = (
    "The field of the randomization method is sqrt(var/N) sum_j (Z1_j cos k_j.x + Z2_j sin k_j.x); its ensemble covariance is var E[cos(k.h)], which "
    "equals the model covariance iff k follows the spectral density. The check is layered so that most Monte-Carlo noise disappears: amp_law (iid N(0,1) "
    "amplitudes over Hypothesis-drawn seeds), wave_law (pooled wave vectors: uniform directions, radial law vs an independently integrated cdf, and the "
    "characteristic-function identity mean cos(k.h) = rho(|h|) at generated lags; inversion sampling at |z| <= 7, MCMC with effective sample size N/10 and "
    "a documented bias allowance 0.25 sqrt(100/N)), ppf_law (deterministic: the inversion sampler's quantile function at generated probabilities k 2^-53 "
    "incl. both extreme tails must be a finite wave number and satisfy F(ppf(u)) = u or 1-u against closed-form cdfs to 1e-12), mode_scaling (pooled error must not grow from N to 4N to 16N), srf_ensemble (black box: sample mean "
    "and covariance of SRF over 300-3000 seeds at <= 6 points vs cov_spatial + nugget for anisotropic rotated models), fourier_cov (randomness removed: "
    "sum sf_j^2 cos(k_j.D) recomputed from the documented grid must equal the generator's own table and converge to the covariance under refinement), "
    "incompr_cov (component covariances of vector fields vs the projected spectrum). Every statistical failure is re-run once on fresh seeds with a 4x "
    "sample; only a confirmed exceedance is a violation. Non-trivial: model not isotropic-unit-default, lag within (0.05, 5) length scales, >= 1e4 pooled "
    "modes (wave_law); distinct by (class, dim, sampling path, rounded parameters)."
)
ASSUMPTIONS = [
    "z-tests with |z| <= 7 (p ~ 2.6e-12 per test) on means of bounded / Gaussian quantities; Kolmogorov bound sqrt(M) D <= 3.7 for the radial law",
    "MCMC-sampled wave numbers are biased by the finite chains: allowance 0.25*sqrt(100/N) in correlation units, effective sample size M/10 (measured in design probing: bias 0.06-0.09 at N=100, 0.016-0.024 at N=1000)",
    "model.correlation / spectral_density are checked against closed forms and the Fourier pair in C03 / C04",
    "MCMC sampling on numerical-Hankel spectra in dim >= 2 is a known finding (K1) excluded from the main search and probed on every run",
]

PPF = {("Gaussian", 1), ("Gaussian", 2), ("Exponential", 1), ("Exponential", 2)}
ANALYTIC = gens.ANALYTIC_SPECTRUM
ZMAX = 7.0


def _sampling_path(cls, dim, sampling):
    if sampling == "inversion" or (sampling == "auto" and (cls, dim) in PPF):
        return "inversion"
    return "mcmc"


def _seeds(seed, n):
    return np.random.RandomState(seed).randint(0, 2**31 - 1, size=n)


class Stat:
    """Collects z-scores; a failing set is confirmed on fresh seeds before it counts."""

    def __init__(self):
        self.items = []

    def z(self, name, value, expect, se, bias=0.0):
        dev = abs(value - expect)
        zz = max(0.0, dev - bias) / max(se, 1e-300)
        self.items.append((name, float(value), float(expect), float(se), float(bias), float(zz)))
        return zz

    def worst(self):
        return max(self.items, key=lambda t: t[5]) if self.items else None

    def failed(self):
        return [t for t in self.items if t[5] > ZMAX]


def _confirm(run, case, rec, tags, kind):
    """run(seed, factor) -> Stat. First pass; on exceedance re-run with 4x sample on seed2."""
    s1 = run(case["seed"], 1)
    w = s1.worst()
    if w:
        rec.discrepancy(kind, w[5], ZMAX)
    if not s1.failed():
        return
    rec.label("confirmation_run")
    s2 = run(case["seed2"], 4)
    f2 = s2.failed()
    if f2:
        n, v, e, se, b, z = max(f2, key=lambda t: t[5])
        raise Violation(
            f"{kind}: {n} = {v:.5g}, expected {e:.5g} (standard error {se:.3g}, allowance {b:.3g}) -> z = {z:.1f} > {ZMAX} "
            f"(confirmed on fresh seeds with a 4x sample; first run failed {[t[0] for t in s1.failed()][:4]})",
            dict(tags, kind=kind, stat=n.split("[")[0]),
        )


# ---------------------------------------------------------------------------
# model strategies

MCMC_OK = ["Gaussian", "Exponential", "Matern", "Integral", "TPLGaussian", "TPLExponential", "JBessel", "HyperSpherical"]


@st.composite
def _law_model(draw, tier, allow_hankel_1d=True):
    cls = draw(st.sampled_from(gens.CLASSES))
    dims = gens.valid_dims(cls)
    dim = draw(st.sampled_from(dims))
    sampling = draw(st.sampled_from(["auto", "auto", "mcmc"]))
    hankel = cls in gens.HANKEL_SPECTRUM
    path = _sampling_path(cls, dim, sampling)
    spec = {
        "cls": cls, "dim": dim, "var": 1.0, "len_scale": draw(st.one_of(st.just(1.0), logfloat(0.2, 5.0))), "nugget": 0.0,
        "rescale": draw(st.one_of(st.none(), logfloat(0.5, 2.0))), "anis": [1.0] * (dim - 1), "angles": [0.0] * (dim * (dim - 1) // 2),
        "opt": draw(gens.opt_args(cls, dim, mode="accuracy")),
    }
    if cls == "Matern" and spec["opt"].get("nu", 1.0) > 20:
        spec["opt"]["nu"] = 20.0
    if cls == "JBessel":
        # keep away from the documented degenerate end and from very peaked spectra
        spec["opt"]["nu"] = float(min(max(spec["opt"].get("nu", dim / 2), dim / 2 - 0.5), dim / 2 + 3))
    if cls in gens.TPL and spec["opt"].get("len_low", 0.0) > 0:
        spec["opt"]["len_low"] = float(min(spec["opt"]["len_low"], 3 * spec["len_scale"]))
    _clamp_heavy_tail(spec)
    # "any covariance model" includes one whose dimension was assigned after construction (generators read the model's
    # dimension-dependent spectral machinery); classes with dimension-dependent argument bounds stay out (C14's K6)
    others = [d for d in dims if d != dim]
    if others and cls not in ("JBessel", "SuperSpherical", "TPLSimple") and draw(st.integers(0, 3)) == 0:
        spec["via_dim"] = draw(st.sampled_from(others))
    return spec, sampling, path, hankel


def _build(spec):
    """build_model, optionally via another dimension followed by `model.dim = dim` (isotropic specs only)."""
    via = spec.get("via_dim")
    if via is None:
        return build_model(spec)
    s = {k: v for k, v in spec.items() if k not in ("via_dim", "anis", "angles")}
    m = build_model(dict(s, dim=via))
    with quiet():
        m.dim = spec["dim"]
    return m


def _clamp_heavy_tail(spec):
    """Keep the radial spectral pdf's tail exponent tau >= 0.75 (pdf ~ k^-(1+tau)) in the main search.

    Integral: tau = nu; truncated power laws: tau = 2 hurst; Stable: tau = alpha; Matern: tau = 2 nu.
    Heavier tails are the known finding K24 (MCMC chains too short), probed separately.
    """
    o = spec["opt"]
    cls = spec["cls"]
    if cls == "Integral":
        o["nu"] = float(max(o.get("nu", 1.0), 0.75))
    if cls in gens.TPL:
        o["hurst"] = float(max(o.get("hurst", 0.5 if cls != "TPLExponential" else 0.25), 0.375))
    if cls in ("Stable", "TPLStable"):
        o["alpha"] = float(max(o.get("alpha", 1.5), 0.75))
    if cls == "Matern":
        o["nu"] = float(max(o.get("nu", 1.0), 0.4))


def _excluded_K1(path, hankel, dim):
    return path == "mcmc" and hankel and dim >= 2


# ---------------------------------------------------------------------------
# 1. amplitudes


@st.composite
def gen_amp(draw, tier="quick"):
    return {
        "gen": draw(st.sampled_from(["RandMeth", "IncomprRandMeth", "Fourier"])),
        "dim": draw(st.sampled_from([1, 2, 3])),
        "mode_no": draw(st.sampled_from([64, 256, 1000])),
        "seed": draw(st.integers(0, 2**31 - 1)),
        "seed2": draw(st.integers(0, 2**31 - 1)),
        "nseeds": 60 if tier == "quick" else 300,
    }


def check_amp(case, rec):
    g = case["gen"]
    dim = case["dim"] if g != "IncomprRandMeth" else 2 + case["dim"] % 2
    tags = {"gen": g, "dim": dim}
    rec.label(g)
    model = gs.Gaussian(dim=dim if dim < 3 or g == "Fourier" else 2)

    def run(seed, factor):
        zs1, zs2 = [], []
        for s in _seeds(seed, case["nseeds"] * factor):
            with quiet():
                if g == "Fourier":
                    gen = Fourier(model, period=10.0, mode_no=[8] * model.dim if model.dim < 3 else [4] * 3, seed=int(s))
                elif g == "IncomprRandMeth":
                    gen = IncomprRandMeth(model, mode_no=case["mode_no"], seed=int(s))
                else:
                    gen = RandMeth(model, mode_no=case["mode_no"], seed=int(s))
            zs1.append(np.asarray(gen._z_1))
            zs2.append(np.asarray(gen._z_2))
        a, b = np.concatenate(zs1), np.concatenate(zs2)
        M = a.size
        st_ = Stat()
        for nm, v in (("z1", a), ("z2", b)):
            st_.z(f"mean({nm})", v.mean(), 0.0, 1 / math.sqrt(M))
            st_.z(f"var({nm})", v.var(), 1.0, math.sqrt(2.0 / M))
            st_.z(f"m4({nm})", np.mean(v**4), 3.0, math.sqrt(96.0 / M))
            st_.z(f"lag1({nm})", np.mean(v[:-1] * v[1:]), 0.0, 1 / math.sqrt(M))
        st_.z("E[z1 z2]", np.mean(a * b), 0.0, 1 / math.sqrt(M))
        # the two streams must not be copies / shifted copies of each other
        st_.z("E[z1 z2 shifted]", np.mean(a[1:] * b[:-1]), 0.0, 1 / math.sqrt(M))
        return st_

    _confirm(run, case, rec, tags, "amplitude_law")
    rec.nontrivial(True)


# ---------------------------------------------------------------------------
# 2. wave vectors


@st.composite
def gen_wave(draw, tier="quick"):
    spec, sampling, path, hankel = draw(_law_model(tier))
    # unit of length: correlation lengths of order 10^e (wave numbers of order 10^-e)
    lexp = draw(st.sampled_from([0, 0, 0, 0, 9, -9, 12, -12]))
    if hankel:
        # numerical spectra go through the third-party hankel package, which decides k == 0 with an absolute tolerance of its own
        lexp = 0
    if lexp:
        spec["len_scale"] = float(spec["len_scale"] * 10.0**lexp)
        if spec["opt"].get("len_low"):
            spec["opt"]["len_low"] = float(spec["opt"]["len_low"] * 10.0**lexp)
        spec["len_unit_exp"] = lexp
    N = draw(st.sampled_from([100, 400, 1000]))
    case = {
        "spec": spec, "sampling": sampling, "mode_no": N,
        "seed": draw(st.integers(0, 2**31 - 1)), "seed2": draw(st.integers(0, 2**31 - 1)),
        "pooled": 20000 if tier == "quick" else 100000,
        "lags": draw(st.lists(logfloat(0.05, 5.0), min_size=3, max_size=5)),
        "dir": draw(st.lists(st.floats(-1, 1), min_size=3, max_size=3)),
    }
    return case


@st.composite
def gen_wave_cdf(draw, tier="quick"):
    """sampling='inversion' where the model ships a radial cdf but no ppf (3-D Gaussian / Exponential): scipy inverts the cdf numerically."""
    cls = draw(st.sampled_from(["Gaussian", "Exponential"]))
    spec = {
        "cls": cls, "dim": 3, "var": 1.0, "len_scale": draw(st.one_of(st.just(1.0), logfloat(0.2, 5.0))), "nugget": 0.0,
        "rescale": draw(st.one_of(st.none(), logfloat(0.5, 2.0))), "anis": [1.0, 1.0], "angles": [0.0, 0.0, 0.0], "opt": {},
    }
    return {
        "spec": spec, "sampling": "inversion", "mode_no": 100,
        "seed": draw(st.integers(0, 2**31 - 1)), "seed2": draw(st.integers(0, 2**31 - 1)),
        "pooled": 3000 if tier == "quick" else 8000,
        "lags": draw(st.lists(logfloat(0.05, 5.0), min_size=3, max_size=5)),
        "dir": draw(st.lists(st.floats(-1, 1), min_size=3, max_size=3)),
    }


@st.composite
def gen_wave_hd(draw, tier="quick"):
    """Internal dimension 4 and 5 (x, y, z, t models; lat-lon + time has internal dimension 4): directions come from the general branch of the sphere sampler."""
    cls = draw(st.sampled_from(["Gaussian", "Exponential", "Matern", "Stable", "Rational"]))
    how = draw(st.sampled_from(["dim4", "dim5", "xyzt", "xyzt"]))
    dim = 5 if how == "dim5" else 4
    spec = {
        "cls": cls, "dim": dim, "var": 1.0, "len_scale": draw(st.one_of(st.just(1.0), logfloat(0.2, 5.0))), "nugget": 0.0,
        "rescale": draw(st.one_of(st.none(), logfloat(0.5, 2.0))), "anis": [1.0] * (dim - 1), "angles": [0.0] * (dim * (dim - 1) // 2),
        "opt": draw(gens.opt_args(cls, dim, mode="accuracy")),
    }
    if how == "xyzt":
        spec.update(temporal=True, spatial_dim=3)
    _clamp_heavy_tail(spec)
    if cls == "Matern" and spec["opt"].get("nu", 1.0) > 20:
        spec["opt"]["nu"] = 20.0
    return {
        "spec": spec, "sampling": "auto", "mode_no": draw(st.sampled_from([100, 400])),
        "seed": draw(st.integers(0, 2**31 - 1)), "seed2": draw(st.integers(0, 2**31 - 1)),
        "pooled": 8000 if tier == "quick" else 40000,
        "lags": draw(st.lists(logfloat(0.05, 5.0), min_size=3, max_size=5)),
        "dir": draw(st.lists(st.floats(-1, 1), min_size=5, max_size=5)),
    }


def _radial_cdf(model, dim, grid):
    """Independent cdf of |k|: cumulative trapezoid of surface factor * spectral density."""
    s = np.abs(model.spectral_density(grid))
    fac = {1: 2.0 * np.ones_like(grid), 2: 2 * math.pi * grid, 3: 4 * math.pi * grid**2}[dim]
    pdf = fac * s
    pdf[~np.isfinite(pdf)] = 0.0
    cdf = np.concatenate([[0.0], np.cumsum(0.5 * (pdf[1:] + pdf[:-1]) * np.diff(grid))])
    return cdf


def check_wave(case, rec):
    spec = case["spec"]
    cls, dim = spec["cls"], spec["dim"]
    hankel = cls in gens.HANKEL_SPECTRUM
    path = _sampling_path(cls, dim, case["sampling"])
    tags = dict(gens.spec_tags(spec), sampling=path, spectrum="hankel" if hankel else "analytic", mode_no=case["mode_no"])
    rec.label(cls, f"dim{dim}", path)
    if spec.get("len_unit_exp"):
        rec.label(f"len_unit_1e{spec['len_unit_exp']}")
    if _excluded_K1(path, hankel, dim) and not case.get("probe"):
        rec.exclude("K1_mcmc_hankel_dim>=2")
        return
    N = case["mode_no"]
    model = lib(_build, spec, _tags=tags)
    if spec.get("via_dim"):
        rec.label("dim_assigned_after_construction")
    ls = model.len_rescaled
    d0 = np.array(case["dir"][:dim], dtype=float)
    if np.linalg.norm(d0) < 1e-3:
        d0 = np.ones(dim)
    d0 /= np.linalg.norm(d0)
    lags = np.array(case["lags"]) * ls
    bias = 0.0 if path == "inversion" else 0.25 * math.sqrt(100.0 / N)
    eff = 1.0 if path == "inversion" else 0.1

    def run(seed, factor):
        ns = max(2, int(math.ceil(case["pooled"] * factor / N)))
        ks = []
        for s in _seeds(seed, ns):
            with quiet():
                g = RandMeth(model, mode_no=N, seed=int(s), sampling=case["sampling"])
            ks.append(np.asarray(g._cov_sample))
        k = np.concatenate(ks, axis=1)  # (dim, M)
        M = k.shape[1]
        Me = M * eff
        st_ = Stat()
        rad = np.linalg.norm(k, axis=0)
        require(bool(np.all(np.isfinite(k))), "non-finite wave vectors", dict(tags, kind="wave_nonfinite"))
        # (a) directions
        nz = rad > 0
        u = k[:, nz] / rad[nz]
        for i in range(dim):
            st_.z(f"E[u_{i}]", u[i].mean(), 0.0, math.sqrt(1.0 / (dim * Me)))
            for j in range(i, dim):
                ex = (1.0 / dim) if i == j else 0.0
                # var(u_i u_j): for uniform directions E[u_i^2 u_j^2] = 1/(d(d+2)) (i != j), E[u_i^4] = 3/(d(d+2))
                m4 = (3.0 if i == j else 1.0) / (dim * (dim + 2))
                st_.z(f"E[u_{i}u_{j}]", np.mean(u[i] * u[j]), ex, math.sqrt(max(m4 - ex * ex, 1e-12) / Me))
        # (c) characteristic function identity along a generated direction
        for h in lags:
            rho = float(model.correlation(np.array([h]))[0])
            rho2 = float(model.correlation(np.array([2 * h]))[0])
            val = float(np.mean(np.cos(h * (d0 @ k))))
            se = math.sqrt(max(1.0 + rho2 - 2.0 * rho * rho, 1e-12) / (2.0 * Me))
            st_.z(f"mean cos(k.h)[h={h / ls:.3g} len]", val, rho, se, bias=bias)
        # (b) radial law against an independently integrated cdf (analytic spectra; Hankel only in 1-D where it is accurate to ~1%)
        if dim > 3:
            return st_
        kmax = float(np.quantile(rad, 0.999)) * 1.5 + 10.0 / ls
        grid = np.linspace(0.0, kmax, 20001)
        with quiet():
            cdf = _radial_cdf(model, dim, grid)
            if not hankel:
                # the radial pdf the sampler is given is the surface factor times the spectral density (deterministic part of the law)
                gsel = grid[1::2500]
                pl = np.asarray(model.spectral_rad_pdf(gsel), dtype=float)
                po = {1: 2.0 * np.ones_like(gsel), 2: 2 * math.pi * gsel, 3: 4 * math.pi * gsel**2}[dim] * np.abs(np.asarray(model.spectral_density(gsel), dtype=float))
                okp = np.isfinite(po)
                require(bool(np.allclose(pl[okp], po[okp], rtol=1e-9, atol=1e-300)),
                        f"spectral_rad_pdf {pl[okp][:4].tolist()} is not the surface factor of dimension {dim} times the spectral density {po[okp][:4].tolist()}",
                        dict(tags, kind="rad_pdf_factor"))
        tail = 1.0 - cdf[-1]
        if cdf[-1] > 0.5:
            emp = np.searchsorted(np.sort(rad), grid, side="right") / M
            D = float(np.max(np.abs(emp - cdf)))
            allow = abs(tail) + (0.02 if hankel else 1e-3) + bias
            # Kolmogorov: P(sqrt(M) D > 3.7) ~ 2.6e-12, mapped onto the common |z| <= 7 scale
            st_.z("KS(radii)", D, 0.0, 3.7 / (ZMAX * math.sqrt(Me)), bias=allow)
        return st_

    _confirm(run, case, rec, tags, "wave_law")
    rec.nontrivial(not gens.spec_is_default(spec) or path == "mcmc")


# ---------------------------------------------------------------------------
# 2b. inversion sampling: the quantile function at every probability the uniform generator can produce


def _u_values():
    """Probabilities in (0, 1) as rng.random() can return them: k 2^-53, incl. both extreme tails."""
    tail = st.builds(lambda e, m: m * 2.0**-e, st.integers(1, 52), st.floats(1.0, 1.999))
    return st.one_of(
        st.floats(2.0**-53, 1.0 - 2.0**-53),
        tail,
        tail.map(lambda t: 1.0 - t),
        st.integers(1, 64).map(lambda k: k * 2.0**-53),
        st.integers(1, 64).map(lambda k: 1.0 - k * 2.0**-53),
    ).filter(lambda u: 0.0 < u < 1.0)


@st.composite
def gen_ppf(draw, tier="quick"):
    cls, dim = draw(st.sampled_from(sorted(PPF) + [("Exponential", 3), ("Gaussian", 3)]))
    spec = {
        "cls": cls, "dim": dim, "var": draw(logfloat(0.1, 10.0)), "len_scale": draw(st.one_of(st.just(1.0), logfloat(1e-3, 1e3))), "nugget": 0.0,
        "rescale": draw(st.one_of(st.none(), logfloat(0.1, 10.0))), "anis": [draw(logfloat(0.1, 10.0)) for _ in range(dim - 1)],
        "angles": [draw(st.floats(-3.0, 3.0)) for _ in range(dim * (dim - 1) // 2)], "opt": {},
    }
    return {"spec": spec, "u": sorted(set(draw(st.lists(_u_values(), min_size=4, max_size=40))))}


def _ref_radial_cdf(cls, dim, x):
    """Closed-form cdf of |k| len_rescaled in terms of x = k * len_rescaled, and its complement (both cancellation free)."""
    import mpmath as mp

    x = mp.mpf(x)
    if cls == "Gaussian":
        if dim == 1:
            return mp.erf(x / 2), mp.erfc(x / 2)
        if dim == 2:
            return -mp.expm1(-((x / 2) ** 2)), mp.exp(-((x / 2) ** 2))
        t = x / mp.sqrt(mp.pi) * mp.exp(-((x / 2) ** 2))
        return mp.erf(x / 2) - t, mp.erfc(x / 2) + t
    if dim == 1:
        return 2 / mp.pi * mp.atan(x), 2 / mp.pi * mp.atan(1 / x) if x > 0 else mp.mpf(1)
    if dim == 3:
        t = x / (1 + x * x)
        return 2 / mp.pi * (mp.atan(x) - t), (2 / mp.pi * (mp.atan(1 / x) + t)) if x > 0 else mp.mpf(1)
    q = 1 / mp.sqrt(1 + x * x)
    return 1 - q, q


def check_ppf(case, rec):
    spec = case["spec"]
    cls, dim = spec["cls"], spec["dim"]
    tags = dict(gens.spec_tags(spec), sampling="inversion", kind="ppf_law")
    rec.label(cls, f"dim{dim}", "ppf_law")
    model = lib(build_model, spec, _tags=tags)
    u = np.array(case["u"], dtype=float)
    ls = float(model.len_rescaled)
    # the shipped radial cdf (used by sampling='inversion' where there is no ppf) against the closed form, at radii over many decades
    xs = np.concatenate([u / (1.0 - u), [1e-6, 1e-3, 0.1, 1.0, 3.0, 30.0, 1e3]])
    with quiet():
        F_lib = np.asarray(lib(model.spectral_rad_cdf, xs / ls, _what="spectral_rad_cdf", _tags=tags), dtype=float)
    for x, f in zip(xs, F_lib):
        F, Fc = _ref_radial_cdf(cls, dim, x)
        e = float(min(abs(F - f), abs(Fc - (1 - f)) if f > 0.5 else abs(F - f)))
        rec.discrepancy("cdf_law", e, 1e-12 + 4e-16 * x)
        if e > 1e-12 + 4e-16 * x:
            raise Violation(f"{cls} dim {dim}: spectral_rad_cdf({x / ls!r}) = {f!r}, closed form {float(F)!r} (x = k len = {x:.6g})", dict(tags, kind="cdf_law"))
    if (cls, dim) not in PPF:
        rec.label("cdf_only")
        rec.nontrivial(True)
        return
    with quiet():
        k = np.asarray(lib(model.spectral_rad_ppf, u, _what="spectral_rad_ppf", _tags=tags), dtype=float)
        k1 = np.array([float(model.spectral_rad_ppf(float(v))) for v in u])
    require(k.shape == u.shape, f"spectral_rad_ppf returns shape {k.shape} for {u.shape}", tags)
    bad = ~np.isfinite(k) | (k < 0)
    if bad.any():
        raise Violation(f"spectral_rad_ppf({u[bad][0]!r}) = {k[bad][0]!r}: not a finite non-negative wave number "
                        f"({cls}, dim {dim}; rng.random() can return this probability)", dict(tags, kind="ppf_nonfinite"))
    require(bool(np.all(k == k1)), "spectral_rad_ppf differs between scalar and array calls", tags)
    # law of ppf(U): F(ppf(u)) must be u (increasing inverse) or 1 - u (decreasing inverse; equally valid for U uniform) throughout
    inc = dec = 0.0
    for ui, ki in zip(u, k):
        F, Fc = _ref_radial_cdf(cls, dim, ki * ls)
        inc = max(inc, float(min(abs(F - ui), abs(Fc - (1 - ui)))))
        dec = max(dec, float(min(abs(Fc - ui), abs(F - (1 - ui)))))
    err = min(inc, dec)
    rec.discrepancy("ppf_law", err, 1e-12)
    if err > 1e-12:
        raise Violation(f"law of spectral_rad_ppf(U): |F(ppf(u)) - u| up to {inc:.3g} (and {dec:.3g} for the reflected law) > 1e-12", tags)
    mono = np.diff(k)
    require(bool(np.all(mono >= 0) or np.all(mono <= 0)), "spectral_rad_ppf is not monotone", tags)
    rec.nontrivial(bool(u.min() < 1e-8 or u.max() > 1 - 1e-8))


# ---------------------------------------------------------------------------
# 3. error must not grow with the number of modes


@st.composite
def gen_scaling(draw, tier="quick"):
    spec, sampling, path, hankel = draw(_law_model(tier))
    return {
        "spec": spec, "sampling": sampling, "n0": draw(st.sampled_from([32, 64])),
        "seed": draw(st.integers(0, 2**31 - 1)), "seed2": draw(st.integers(0, 2**31 - 1)),
        "nseeds": 24 if tier == "quick" else 100,
        "lag": draw(logfloat(0.1, 3.0)),
    }


def check_scaling(case, rec):
    spec = case["spec"]
    cls, dim = spec["cls"], spec["dim"]
    hankel = cls in gens.HANKEL_SPECTRUM
    path = _sampling_path(cls, dim, case["sampling"])
    tags = dict(gens.spec_tags(spec), sampling=path, spectrum="hankel" if hankel else "analytic")
    rec.label(cls, path)
    if _excluded_K1(path, hankel, dim):
        rec.exclude("K1_mcmc_hankel_dim>=2")
        return
    model = lib(build_model, spec, _tags=tags)
    h = case["lag"] * model.len_rescaled
    rho = float(model.correlation(np.array([h]))[0])
    rho2 = float(model.correlation(np.array([2 * h]))[0])
    e1 = np.zeros(dim)
    e1[0] = 1.0

    def run(seed, factor):
        st_ = Stat()
        errs = []
        for mult in (1, 4, 16):
            N = case["n0"] * mult
            vals = []
            for s in _seeds(seed + mult, case["nseeds"] * factor):
                with quiet():
                    g = RandMeth(model, mode_no=N, seed=int(s), sampling=case["sampling"])
                vals.append(float(np.mean(np.cos(h * g._cov_sample[0]))))
            vals = np.array(vals)
            # per-seed squared error of the one-realisation covariance estimate
            mse = float(np.mean((vals - rho) ** 2))
            errs.append((N, mse, vals))
        # Monte-Carlo rate: mse(N) ~ c/N (+ bias^2 shrinking with N). mse must not grow: mse(16 n0) <= mse(n0) within noise.
        (n_a, m_a, v_a), (_nb, _mb, _vb), (n_c, m_c, v_c) = errs
        sq_a, sq_c = (v_a - rho) ** 2, (v_c - rho) ** 2
        se = math.sqrt(sq_a.var() / sq_a.size + sq_c.var() / sq_c.size)
        st_.z("mse(16N) - mse(N) <= 0", max(m_c - m_a, 0.0), 0.0, max(se, 1e-12))
        # and the expected value itself at the largest N (bias allowance for MCMC)
        bias = 0.0 if path == "inversion" else 0.25 * math.sqrt(100.0 / n_c)
        eff = 1.0 if path == "inversion" else 0.1
        se2 = math.sqrt(max(1 + rho2 - 2 * rho * rho, 1e-12) / (2.0 * n_c * v_c.size * eff))
        st_.z("mean cos(k.h) at 16N", float(v_c.mean()), rho, se2, bias=bias)
        return st_

    _confirm(run, case, rec, tags, "mode_scaling")
    rec.nontrivial(True)


# ---------------------------------------------------------------------------
# 4. black-box ensemble through SRF


@st.composite
def gen_ensemble(draw, tier="quick"):
    # mostly the cheap inversion path (full anisotropy / rotation / nugget), some MCMC configurations
    kind = draw(st.sampled_from(["ppf", "ppf", "ppf", "mcmc"]))
    if kind == "ppf":
        cls = draw(st.sampled_from(["Gaussian", "Exponential"]))
        dims = (1, 2)
    else:
        cls = draw(st.sampled_from(MCMC_OK))
        dims = (1, 2, 3)
    spec = draw(gens.model_specs(classes=[cls], dims=dims, mode="accuracy", nugget=True, scale_range=(0.3, 3.0), var_range=(0.2, 5.0)))
    if cls == "Matern" and spec["opt"].get("nu", 1.0) > 20:
        spec["opt"]["nu"] = 20.0
    if cls == "JBessel":
        spec["opt"]["nu"] = float(min(max(spec["opt"].get("nu", spec["dim"] / 2), spec["dim"] / 2 - 0.5), spec["dim"] / 2 + 3))
    _clamp_heavy_tail(spec)
    dim = spec["dim"]
    if dim > 1 and draw(st.floats(0, 1)) < 0.7:
        # pronounced anisotropy and a rotation that is no multiple of pi/2
        spec["anis"] = [draw(st.sampled_from([0.2, 0.35, 3.0, 5.0])) for _ in range(dim - 1)]
        spec["angles"] = [draw(st.floats(0.3, 1.2)) * draw(st.sampled_from([-1.0, 1.0])) for _ in range(dim * (dim - 1) // 2)]
    if spec["nugget"] > 0 and draw(st.booleans()):
        spec["nugget"] = float(draw(st.sampled_from([0.2, 3.0])) * spec["var"])
    npts = draw(st.integers(2, 6))
    ls = spec["len_scale"] / (spec.get("rescale") or 1.0)
    pos = draw(gens.point_cloud(dim, n_min=npts, n_max=npts, kinds=("cloud", "cluster"), scale=0.6 * ls))
    path = _sampling_path(cls, dim, "auto")
    # unit of the variable: variance and nugget of order 10^e (SI units of small / large quantities), mean scaled alike
    uexp = draw(st.sampled_from([0, 0, 0, -9, -12, 8]))
    spec["var"] = float(spec["var"] * 10.0**uexp)
    spec["nugget"] = float(spec["nugget"] * 10.0**uexp)
    volumes = draw(st.sampled_from([None, None, "scalar", "array"]))
    if volumes and draw(st.booleans()):
        spec["nugget"] = float(draw(st.sampled_from([0.8, 2.0])) * spec["var"])
    return {
        "spec": spec, "pos": pos, "mode_no": draw(st.sampled_from([64, 200] if path == "mcmc" else [64, 500, 1000])),
        "mesh": draw(st.sampled_from(["unstructured", "unstructured", "structured"])),
        "mean": draw(st.sampled_from([0.0, 1.3])) * 10.0 ** (uexp / 2),
        "seed": draw(st.integers(0, 2**31 - 1)), "seed2": draw(st.integers(0, 2**31 - 1)),
        "nseeds": (1500 if path == "inversion" else 120) if tier == "quick" else (6000 if path == "inversion" else 800),
        # the documented ensemble pattern: positions given once, further realisations drawn with srf(seed=...) on the stored positions -
        # here after the model of the object was re-oriented in place
        "pattern": draw(st.sampled_from(["pass_pos", "pass_pos", "stored_after_reorient", "after_inplace_rescale"] if dim > 1 else ["pass_pos", "pass_pos", "after_inplace_rescale"])),
        # element volumes handed to the default upscaling "no_scaling" (documented: the variance is not changed)
        "volumes": volumes,
    }


def check_ensemble(case, rec):
    spec = case["spec"]
    cls, dim = spec["cls"], spec["dim"]
    path = _sampling_path(cls, dim, "auto")
    tags = dict(gens.spec_tags(spec), sampling=path, mode_no=case["mode_no"])
    rec.label(cls, f"dim{dim}", path, case["mesh"])
    model = lib(build_model, spec, _tags=tags)
    pos = np.array(case["pos"], dtype=float).reshape(dim, -1)
    if case["mesh"] == "structured":
        axes = [np.unique(np.round(pos[i], 9)) for i in range(dim)]
        axes = [a[:3] for a in axes]
        pts = np.array(np.meshgrid(*axes, indexing="ij")).reshape(dim, -1)
    else:
        axes, pts = None, pos
    n = pts.shape[1]
    N = case["mode_no"]
    # expected covariance with independent geometry
    M = geo.iso_matrix(dim, spec["angles"], spec["anis"])
    iso = M @ pts
    dist = np.sqrt(((iso[:, :, None] - iso[:, None, :]) ** 2).sum(axis=0))
    C = model.covariance(dist) + spec["nugget"] * np.eye(n)
    sill = spec["var"] + spec["nugget"]
    bias_c = 0.0 if path == "inversion" else 0.25 * math.sqrt(100.0 / N) * spec["var"]
    eff = 1.0 if path == "inversion" else 0.5  # seeds are independent; chains inside one seed are not

    def run(seed, factor):
        S = case["nseeds"] * factor
        with quiet():
            stored = case.get("pattern") == "stored_after_reorient" and dim > 1
            if stored:
                m0 = build_model(dict(spec, anis=[2.5 * a for a in spec["anis"]], angles=[a + 0.8 for a in spec["angles"]]))
                srf = gs.SRF(m0, mean=case["mean"], mode_no=N, seed=0)
                srf.structured(axes) if axes is not None else srf(pts)
                srf.model.anis = spec["anis"]
                srf.model.angles = spec["angles"]
            elif case.get("pattern") == "after_inplace_rescale" and cls not in gens.TPL:
                # (truncated power law models are left out: their variance follows the rescaled length, so the target changes too)
                # the object is built and used with another rescale factor (another convention for the length scale), which is then
                # assigned in place: only the rescale factor changes
                r1 = float(spec.get("rescale") or model.rescale)
                m0 = build_model(dict(spec, rescale=3.0 * r1))
                srf = gs.SRF(m0, mean=case["mean"], mode_no=N, seed=0)
                srf.structured(axes) if axes is not None else srf(pts)
                srf.model.rescale = r1
            else:
                srf = gs.SRF(model, mean=case["mean"], mode_no=N, seed=0)
            F = np.empty((S, n))
            vkw = {}
            if case.get("volumes") == "scalar":
                vkw["point_volumes"] = 0.25
            elif case.get("volumes") == "array":
                vkw["point_volumes"] = np.linspace(0.0, 2.0, n)
            for r, s in enumerate(_seeds(seed, S)):
                if stored:
                    F[r] = np.reshape(srf(seed=int(s), **vkw), -1)
                elif axes is not None:
                    F[r] = srf.structured(axes, seed=int(s), **vkw).reshape(-1)
                else:
                    F[r] = srf(pts, seed=int(s), **vkw)
        require(bool(np.all(np.isfinite(F))), "non-finite field values", dict(tags, kind="field_nonfinite"))
        st_ = Stat()
        mu = F.mean(axis=0)
        for i in range(n):
            st_.z(f"mean[{i}]", mu[i], case["mean"], math.sqrt(C[i, i] / (S * eff)))
        G = F - case["mean"]
        emp = G.T @ G / S
        infl = 1.0 + 2.0 / N  # fourth cumulant of the finite mode sum
        for i in range(n):
            for j in range(i, n):
                se = math.sqrt(max(C[i, i] * C[j, j] + C[i, j] ** 2, 1e-300) * infl / (S * eff))
                nm = "var" if i == j else "cov"
                st_.z(f"{nm}[{i},{j}]", emp[i, j], C[i, j], se, bias=bias_c)
        return st_

    if case.get("pattern") == "stored_after_reorient" and dim > 1:
        rec.label("ensemble_on_stored_positions_after_reorientation")
    if case.get("pattern") == "after_inplace_rescale":
        rec.label("ensemble_after_inplace_rescale")
    if case.get("volumes"):
        rec.label("point_volumes_" + case["volumes"] + ("_nugget" if spec["nugget"] > 0 else ""))
    _confirm(run, case, rec, tags, "srf_ensemble")
    ls = model.len_rescaled
    lag_ok = bool(np.any((dist > 0.05 * ls) & (dist < 5 * ls)))
    rec.nontrivial(not gens.spec_is_default(spec) and lag_ok)


# ---------------------------------------------------------------------------
# 5. Fourier generator: randomness removed


@st.composite
def gen_fourier(draw, tier="quick"):
    cls = draw(st.sampled_from(["Gaussian", "Exponential", "Matern", "Integral", "TPLGaussian", "TPLExponential", "HyperSpherical"]))
    spec = draw(gens.model_specs(classes=[cls], dims=(1, 2, 3), mode="accuracy", nugget=False, rotate=True, scale_range=(0.5, 2.0), var_range=(0.2, 5.0)))
    if cls == "Matern":
        spec["opt"]["nu"] = float(min(max(spec["opt"].get("nu", 1.0), 0.5), 20.0))
    dim = spec["dim"]
    ls = spec["len_scale"] / (spec.get("rescale") or 1.0)
    return {
        "spec": spec,
        # per-axis period in units of the length scale along that main axis (resolved in isotropic coordinates)
        "period": [draw(st.floats(6.0, 14.0)) * ls * a for a in [1.0] + list(spec["anis"])],
        "modes": [draw(st.sampled_from([8, 12, 16] if dim < 3 else [6, 8])) for _ in range(dim)],
        "lag": [draw(st.floats(-1.5, 1.5)) * ls for _ in range(dim)],
        "x0": [draw(st.floats(-3, 3)) * ls for _ in range(dim)],
        "seed": draw(st.integers(0, 2**31 - 1)), "seed2": draw(st.integers(0, 2**31 - 1)),
        "nseeds": 300 if tier == "quick" else 2000,
        "period0": draw(st.sampled_from([None, None, [draw(st.floats(5.0, 20.0)) * ls]])),
    }


def _fourier_grid(spec, period, modes):
    """Documented mode grid and weights: dk_i = 2 pi / L_i * anis_i, n_i symmetric modes, sf^2 = S(|k|) prod dk."""
    dim = spec["dim"]
    anis = np.concatenate([[1.0], geo.pad_anis(dim, spec["anis"])])
    dk = 2 * math.pi / np.asarray(period) * anis
    axes = [(np.arange(n) - n / 2.0) * dk[i] for i, n in enumerate(modes)]
    K = np.array(np.meshgrid(*axes, indexing="ij")).reshape(dim, -1)
    return K, dk


def check_fourier(case, rec):
    spec = case["spec"]
    dim = spec["dim"]
    tags = dict(gens.spec_tags(spec), gen="Fourier")
    rec.label(spec["cls"], f"dim{dim}")
    model = lib(build_model, spec, _tags=tags)
    K, dk = _fourier_grid(spec, case["period"], case["modes"])
    with quiet():
        S = model.spectrum(np.linalg.norm(K, axis=0))
        if case.get("period0"):
            # the generator (and the SRF below) is built with another period, which is then assigned: the tables have to follow
            gen = lib(Fourier, model, period=case["period0"], mode_no=case["modes"], seed=1, _tags=tags)
            gen.period = case["period"]
            rec.label("period_assigned_after_construction")
        else:
            gen = lib(Fourier, model, period=case["period"], mode_no=case["modes"], seed=1, _tags=tags)
    w = S * np.prod(dk)
    # generator's own table equals the documented one
    require(gen._modes.shape == K.shape, f"mode table shape {gen._modes.shape}, documented grid {K.shape}", dict(tags, kind="fourier_table"))
    require(float(np.max(np.abs(gen._modes - K))) <= 1e-9 * float(np.max(np.abs(K)) + 1), "mode table differs from the documented grid", dict(tags, kind="fourier_table"))
    sf2 = np.asarray(gen._spectrum_factor) ** 2
    require(
        float(np.max(np.abs(sf2 - w))) <= 1e-10 * float(np.max(w)),
        f"spectrum factors differ from S(|k|) prod(dk): max dev {float(np.max(np.abs(sf2 - w))):.3g}",
        dict(tags, kind="fourier_weights"),
    )
    # exact ensemble covariance of the generated field between x0 and x0 + lag (positions are isometrised first)
    M = geo.iso_matrix(dim, spec["angles"], spec["anis"])
    x0 = np.array(case["x0"], dtype=float)
    lag = np.array(case["lag"], dtype=float)
    d_iso = M @ lag
    c_exact = float(np.sum(w * np.cos(K.T @ d_iso)))
    v_exact = float(np.sum(w))
    c_model = float(model.covariance(np.array([np.linalg.norm(d_iso)]))[0])
    pts = np.array([x0, x0 + lag]).T

    def run(seed, factor):
        Sn = case["nseeds"] * factor
        F = np.empty((Sn, 2))
        with quiet():
            if case.get("period0"):
                srf = gs.SRF(model, generator="Fourier", period=case["period0"], mode_no=case["modes"], seed=0)
                srf(pts)
                srf.generator.period = case["period"]
            else:
                srf = gs.SRF(model, generator="Fourier", period=case["period"], mode_no=case["modes"], seed=0)
            for r, s in enumerate(_seeds(seed, Sn)):
                F[r] = srf(pts, seed=int(s))
        st_ = Stat()
        st_.z("mean", float(F.mean()), 0.0, math.sqrt(v_exact / (2 * Sn)))
        st_.z("var", float(np.mean(F**2)), v_exact, math.sqrt(2.0 * v_exact**2 / (2 * Sn) * 2))
        st_.z("cov", float(np.mean(F[:, 0] * F[:, 1])), c_exact, math.sqrt((v_exact**2 + c_exact**2) / Sn))
        return st_

    _confirm(run, case, rec, tags, "fourier_ensemble")
    # discretisation: refinement (more modes at fixed period, then larger period) must approach the model covariance.
    # A single lag can be hit by accident on a coarse grid, so the error is the maximum over several lags along
    # the generated direction (truncation = tail mass beyond k_max, periodisation = sum of shifted covariances:
    # both shrink when k_max doubles and the period doubles).
    fr = np.array([0.0, 0.2, 0.4, 0.6, 0.8, 1.0])
    ls_ = float(model.len_rescaled)
    d_ref = d_iso if np.linalg.norm(d_iso) >= 0.2 * ls_ else ls_ * np.array([0.9, 0.45, 0.3])[:dim]  # (a zero lag would be a single point)
    cm = model.covariance(fr * np.linalg.norm(d_ref))
    errs = []
    for fm, fp in ((1, 1.0), (2, 1.0), (4, 2.0)):
        K2, dk2 = _fourier_grid(spec, [p * fp for p in case["period"]], [m * fm for m in case["modes"]])
        with quiet():
            w2 = model.spectrum(np.linalg.norm(K2, axis=0)) * np.prod(dk2)
        ph = K2.T @ d_ref
        errs.append(float(np.max(np.abs(np.array([np.sum(w2 * np.cos(f * ph)) for f in fr]) - cm))))
    rec.discrepancy("fourier_discretisation", errs[-1], 0.02 * spec["var"])
    require(
        errs[-1] <= 1.05 * errs[0] + 1e-3 * spec["var"],
        f"Fourier discretisation error grows under refinement: {errs} (var {spec['var']:.3g})",
        dict(tags, kind="fourier_discretisation"),
    )
    smooth = spec["cls"] == "Gaussian" or (spec["cls"] == "Matern" and spec["opt"].get("nu", 1.0) >= 2.5)
    if smooth and dim < 3:
        require(
            errs[-1] <= 0.02 * spec["var"],
            f"Fourier discretisation does not converge to the model covariance: errors {errs} along the refinement (var {spec['var']:.3g})",
            dict(tags, kind="fourier_discretisation"),
        )
    rec.nontrivial(not gens.spec_is_default(spec))


# ---------------------------------------------------------------------------
# 6. vector fields: component covariances at a lag


@st.composite
def gen_incompr(draw, tier="quick"):
    cls = draw(st.sampled_from(["Gaussian", "Exponential"]))
    dim = 2
    return {
        "spec": {"cls": cls, "dim": dim, "var": draw(logfloat(0.3, 3.0)), "len_scale": draw(logfloat(0.5, 2.0)), "nugget": draw(st.sampled_from([0.0, 0.0, 0.5, 2.0])), "rescale": None,
                 "anis": [1.0], "angles": [0.0], "opt": {}},
        "mean_u": draw(st.one_of(st.floats(0.5, 2.0), st.sampled_from([3.0, 0.25]))), "mode_no": draw(st.sampled_from([64, 256])),
        "lag": [draw(st.floats(-1.0, 1.0)), draw(st.floats(-1.0, 1.0))],
        "seed": draw(st.integers(0, 2**31 - 1)), "seed2": draw(st.integers(0, 2**31 - 1)),
        "nseeds": 300 if tier == "quick" else 2000,
    }


def check_incompr(case, rec):
    spec = case["spec"]
    tags = dict(gens.spec_tags(spec), gen="IncomprRandMeth")
    rec.label(spec["cls"])
    model = lib(build_model, spec, _tags=tags)
    u = case["mean_u"]
    N = case["mode_no"]
    lag = np.array(case["lag"]) * model.len_rescaled
    pts = np.array([[0.3, 0.3 + lag[0]], [-0.2, -0.2 + lag[1]]])
    # expectation over the spectral law by quadrature in polar coordinates (2-D): E[p_i p_j cos(k.h)]
    nr, na = 400, 180
    qs = (np.arange(nr) + 0.5) / nr
    with quiet():
        rad = model.spectral_rad_ppf(qs)
    ang = (np.arange(na) + 0.5) / na * 2 * math.pi
    R, A = np.meshgrid(rad, ang, indexing="ij")
    kx, ky = R * np.cos(A), R * np.sin(A)
    p = np.array([1 - kx * kx / (R * R), -kx * ky / (R * R)])
    cosph = np.cos(kx * lag[0] + ky * lag[1])
    want = np.array([[np.mean(p[i] * p[j] * cosph) for j in range(2)] for i in range(2)]) * u * u * spec["var"]
    want0 = np.array([[np.mean(p[i] * p[j]) for j in range(2)] for i in range(2)]) * u * u * spec["var"]

    def run(seed, factor):
        S = case["nseeds"] * factor
        F = np.empty((S, 2, 2))
        with quiet():
            srf = gs.SRF(model, generator="VectorField", mean_velocity=u, mode_no=N, seed=0)
            for r, s in enumerate(_seeds(seed, S)):
                F[r] = srf(pts, seed=int(s))
        st_ = Stat()
        mean = F.mean(axis=0)
        G = F - np.array([u, 0.0])[None, :, None]
        nug = float(spec["nugget"])
        for i in range(2):
            st_.z(f"mean[u_{i}]", float(mean[i].mean()), u if i == 0 else 0.0, math.sqrt((want0[i, i] + nug) / (2 * S)))
            # pointwise variance of a component: its share of the model variance (times U^2) plus the nugget
            vv = float(np.mean(G[:, i, :] ** 2))
            st_.z(f"var[u_{i}]", vv, want0[i, i] + nug, (want0[i, i] + nug) * math.sqrt(2.0 * (1 + 2.0 / N) / (2 * S)), bias=2e-3 * u * u * spec["var"])
            for j in range(2):
                emp = float(np.mean(G[:, i, 0] * G[:, j, 1]))
                se = math.sqrt(((want0[i, i] + nug) * (want0[j, j] + nug) + want[i, j] ** 2) * (1 + 2.0 / N) / S)
                st_.z(f"cov[u_{i}(x),u_{j}(x+h)]", emp, want[i, j], se, bias=2e-3 * u * u * spec["var"])
        return st_

    _confirm(run, case, rec, tags, "incompr_cov")
    rec.nontrivial(True)


# ---------------------------------------------------------------------------
# K1 probe: MCMC on a numerical-Hankel spectrum in 3-D


@st.composite
def gen_k1(draw, tier="quick"):
    return {"cls": draw(st.sampled_from(["Spherical", "Rational", "Stable", "Integral_heavy_tail"])), "seed": draw(st.integers(0, 100))}


def check_k1(case, rec):
    cls = case["cls"]
    if cls == "Integral_heavy_tail":
        # K24: analytic but heavy-tailed spectrum (radial pdf ~ k^-1.093), default mode_no
        tags = {"model": "Integral", "dim": 3, "kind": "mcmc_heavy_tail_bias", "sampling": "mcmc", "spectrum": "analytic"}
        with quiet():
            model = gs.Integral(dim=3, nu=0.093)
            k = np.concatenate([RandMeth(model, mode_no=1000, seed=int(s))._cov_sample for s in _seeds(case["seed"], 24)], axis=1)
        h = 0.135
        val = float(np.mean(np.cos(h * k[0])))
        rho = float(model.correlation(np.array([h]))[0])
        if abs(val - rho) > 0.25 * math.sqrt(100.0 / 1000) + 7 * math.sqrt(1.0 / (2 * 2400)):
            rec.soft(
                f"Integral(dim=3, nu=0.093), default mode_no=1000: MCMC-sampled wave numbers give field correlation {val:.3f} at lag 0.135 len_scale, "
                f"the model says {rho:.3f} (allowance {0.25 * math.sqrt(0.1):.3f})",
                tags,
            )
        rec.nontrivial(True)
        return
    dim = 3 if cls == "Spherical" else 2
    opt = {"Spherical": {}, "Rational": {"alpha": 0.6}, "Stable": {"alpha": 0.5}}[cls]
    tags = {"model": cls, "dim": dim, "kind": "mcmc_hankel_divergence", "sampling": "mcmc", "spectrum": "hankel"}
    with quiet():
        model = getattr(gs, cls)(dim=dim, **opt)
        ks = []
        for s in _seeds(case["seed"], 8):
            ks.append(RandMeth(model, mode_no=1000, seed=int(s))._cov_sample)
    k = np.concatenate(ks, axis=1)
    h = 0.1 * model.len_rescaled
    val = float(np.mean(np.cos(h * k[0])))
    rho = float(model.correlation(np.array([h]))[0])
    if abs(val - rho) > 0.25 * math.sqrt(100.0 / 1000) + 7 * math.sqrt(1.0 / (2 * 800)):
        rec.soft(
            f"{cls}({dim}-D) with the default settings: wave numbers sampled by MCMC from the numerical Hankel spectrum give field correlation "
            f"{val:.3f} at lag 0.1 len_scale, the model says {rho:.3f} (median |k| {float(np.median(np.linalg.norm(k, axis=0))):.3g})",
            tags,
        )
    rec.nontrivial(True)


# ---------------------------------------------------------------------------
# 8. lat-lon (+ time) fields: the generator is evaluated at the points on the sphere of radius geo_scale, time appended
#    and scaled by the last anisotropy ratio only - the separation the model covariance refers to


@st.composite
def gen_latlon_path(draw, tier="quick"):
    n = draw(st.integers(2, 6))
    return {
        "cls": draw(st.sampled_from(["Gaussian", "Exponential", "Matern"])),
        "temporal": draw(st.booleans()),
        "geo_scale": draw(st.sampled_from([1.0, gs.DEGREE_SCALE, gs.KM_SCALE, 2.56])),
        "frac": draw(logfloat(0.05, 1.0)),
        "time_anis": draw(logfloat(0.1, 10.0)),
        "lat": [draw(st.floats(-90, 90)) for _ in range(n)],
        "lon": [draw(st.floats(-360, 360)) for _ in range(n)],
        "t": [draw(st.floats(-5, 5)) for _ in range(n)],
        "seed": draw(st.integers(0, 2**31 - 1)),
        "mode_no": draw(st.sampled_from([16, 64])),
    }


def check_latlon_path(case, rec):
    g, T = case["geo_scale"], case["temporal"]
    tags = {"model": case["cls"], "kind": "latlon_path", "temporal": T, "geo_scale": g}
    rec.label("latlon_temporal" if T else "latlon", f"geo{g:.3g}")
    kw = dict(latlon=True, geo_scale=g, len_scale=case["frac"] * g, var=1.7)
    if T:
        kw.update(temporal=True, anis=[1.0, 1.0, case["time_anis"]])
    with quiet():
        model = lib(getattr(gs, case["cls"]), _what="lat-lon model", _tags=tags, **kw)
        srf = lib(gs.SRF, model, seed=case["seed"], mode_no=case["mode_no"], _tags=tags)
        lat, lon, t = np.array(case["lat"]), np.array(case["lon"]), np.array(case["t"])
        pos = np.vstack([lat, lon] + ([t] if T else []))
        f = np.asarray(lib(srf, pos.copy(), _tags=tags), dtype=float)
        la, lo = np.deg2rad(lat), np.deg2rad(lon)
        iso = [g * np.cos(la) * np.cos(lo), g * np.cos(la) * np.sin(lo), g * np.sin(la)] + ([t / case["time_anis"]] if T else [])
        want = np.asarray(srf.generator(np.array(iso)), dtype=float)
    sc = math.sqrt(1.7) * (1.0 + 1e-3 * case["mode_no"])
    err = float(np.max(np.abs(f - want)))
    rec.discrepancy("latlon_path", err, 1e-8 * sc)
    require(err <= 1e-8 * sc, f"lat-lon{' + time' if T else ''} field (geo_scale {g:.6g}) differs from its generator evaluated at geo_scale * unit(lat, lon)"
            f"{' with t / anis[-1]' if T else ''} by {err:.3g}", tags)
    rec.nontrivial(g != 1.0 or T)


SUBS = [
    Sub("latlon_path", gen_latlon_path, check_latlon_path, quick=300, thorough=6000, shards_quick=2, shards_thorough=4),
    Sub("amp_law", gen_amp, check_amp, quick=16, thorough=120, shards_quick=2, shards_thorough=4, shrink_quick=False),
    Sub("wave_law", gen_wave, check_wave, quick=60, thorough=1200, shards_quick=5, shards_thorough=8, shrink_quick=False, budget_quick=150),
    Sub("wave_law_cdf_inversion", gen_wave_cdf, check_wave, quick=12, thorough=60, shards_quick=3, shards_thorough=6, shrink_quick=False),
    Sub("wave_law_high_dim", gen_wave_hd, check_wave, quick=10, thorough=200, shards_quick=2, shards_thorough=4, shrink_quick=False, budget_quick=150),
    Sub("ppf_law", gen_ppf, check_ppf, quick=1600, thorough=40000, shards_quick=2, shards_thorough=4),
    Sub("mode_scaling", gen_scaling, check_scaling, quick=16, thorough=300, shards_quick=2, shards_thorough=4, shrink_quick=False, budget_quick=150),
    Sub("srf_ensemble", gen_ensemble, check_ensemble, quick=60, thorough=1200, shards_quick=4, shards_thorough=8, shrink_quick=False, budget_quick=150),
    Sub("fourier_cov", gen_fourier, check_fourier, quick=40, thorough=600, shards_quick=2, shards_thorough=4, shrink_quick=False),
    Sub("incompr_cov", gen_incompr, check_incompr, quick=8, thorough=100, shards_quick=1, shards_thorough=2, shrink_quick=False),
    Sub("k1_probe", gen_k1, check_k1, quick=6, thorough=16, shards_quick=1, shards_thorough=1, shrink_quick=False),
]

#!/venv/bin/python
"""Driver: ./check <Cxx> --tier quick|thorough [--replay file] [--only sub]

Exit codes: 0 property held on everything explored (KNOWN-FINDING lines may
be printed), 1 at least one unlisted violation (VIOLATION line), 2 harness
error.
"""

import argparse
import importlib
import json
import os
import sys
import time
import traceback

os.environ.setdefault("OMP_NUM_THREADS", "1")
os.environ.setdefault("OPENBLAS_NUM_THREADS", "1")
os.environ.setdefault("MKL_NUM_THREADS", "1")
os.environ.setdefault("PYTHONHASHSEED", "0")

HERE = os.path.dirname(os.path.abspath(__file__))
if HERE not in sys.path:
    sys.path.insert(0, HERE)

import common  # noqa: E402
from common import (  # noqa: E402
    HarnessError,
    NullRecorder,
    Recorder,
    Violation,
    case_hash,
    derive_seed,
    jsonable,
    load_known_findings,
    match_known,
)

MAX_SAMPLES = 6
NCPU = int(os.environ.get("VERIF_JOBS", "16"))


def load_prop(prop_id):
    return importlib.import_module(f"props.{prop_id}")


def find_sub(mod, name):
    for s in mod.SUBS:
        if s.name == name:
            return s
    raise HarnessError(f"{mod.ID}: unknown sub-check {name}")


def run_shard(args):
    """Worker: run one (sub-check, shard) Hypothesis search."""
    prop_id, sub_name, tier, vseed, shard, nshards = args
    t0 = time.time()
    out = {
        "sub": sub_name,
        "shard": shard,
        "evaluations": 0,
        "nontrivial_hashes": [],
        "samples": [],
        "labels": {},
        "disc": {},
        "excluded": {},
        "known_hits": {},
        "budget_skipped": 0,
        "violation": None,
        "error": None,
        "wall_s": 0.0,
    }
    try:
        import hypothesis
        from hypothesis import HealthCheck, Phase, given, seed, settings

        mod = load_prop(prop_id)
        sub = find_sub(mod, sub_name)
        findings = load_known_findings()
        n_total = sub.quick if tier == "quick" else sub.thorough
        n = max(1, n_total // nshards)
        budget = sub.budget_quick if tier == "quick" else sub.budget_thorough
        deadline = t0 + budget
        hashes = set()
        state = {"fail": None}

        phases = [Phase.explicit, Phase.generate, Phase.target]
        do_shrink = tier == "thorough" or sub.shrink_quick
        if do_shrink:
            phases.append(Phase.shrink)

        # watchdog for a single case: code under test that never returns (e.g. an optimiser looping on NaN after a change of the
        # library) must not block the run; a case that hits it is inconclusive, never a violation
        import signal

        class _CaseTimeout(BaseException):
            pass

        def _on_alarm(_signum, _frame):
            raise _CaseTimeout()

        case_timeout = int(os.environ.get("VERIF_CASE_TIMEOUT", "900"))
        try:
            signal.signal(signal.SIGALRM, _on_alarm)
        except ValueError:  # not the main thread
            case_timeout = 0

        def body(case):
            # (never skip once a failure has been seen: Hypothesis replays it and a skipped replay looks flaky)
            if time.time() > deadline and state["fail"] is None:
                out["budget_skipped"] += 1
                return
            out["evaluations"] += 1
            rec = Recorder()
            rec._matcher = lambda tg: match_known(prop_id, sub_name, tg, findings)
            try:
                if case_timeout:
                    signal.alarm(case_timeout)
                try:
                    sub.check(case, rec)
                finally:
                    if case_timeout:
                        signal.alarm(0)
            except _CaseTimeout:
                out["excluded"]["case_timeout"] = out["excluded"].get("case_timeout", 0) + 1
                out["budget_skipped"] += 1
                return
            except Violation as v:
                key = match_known(prop_id, sub_name, v.tags, findings)
                if key is not None:
                    out["known_hits"][key] = out["known_hits"].get(key, 0) + 1
                    return
                state["fail"] = (case, v)
                raise
            finally:
                nt = rec._nontrivial
                if nt is None:
                    nt = sub.nontrivial(case) if sub.nontrivial else True
                if nt:
                    h = case_hash(case)
                    if h not in hashes:
                        hashes.add(h)
                        if len(out["samples"]) < MAX_SAMPLES:
                            out["samples"].append(
                                {"sub": sub_name, "case": jsonable(case)}
                            )
                for lb in rec.labels:
                    out["labels"][lb] = out["labels"].get(lb, 0) + 1
                for k, r in rec.disc.items():
                    if r > out["disc"].get(k, 0.0):
                        out["disc"][k] = r
                for k in rec.excluded:
                    out["excluded"][k] = out["excluded"].get(k, 0) + 1
                for k, _m in rec.known:
                    out["known_hits"][k] = out["known_hits"].get(k, 0) + 1

        sd = derive_seed(vseed, prop_id, sub_name, shard)
        test = given(sub.gen(tier))(body)
        test = seed(sd)(test)
        test = settings(
            max_examples=n,
            database=None,
            deadline=None,
            derandomize=False,
            report_multiple_bugs=False,
            suppress_health_check=list(HealthCheck),
            phases=phases,
            print_blob=False,
        )(test)
        try:
            test()
        except Violation as v:
            case, vv = state["fail"] if state["fail"] else (None, v)
            out["violation"] = {
                "sub": sub_name,
                "case": jsonable(case),
                "message": vv.msg,
                "tags": jsonable(vv.tags),
                "detail": jsonable(vv.detail),
            }
        except hypothesis.errors.Unsatisfiable as e:
            out["error"] = f"Unsatisfiable: {e}"
        out["nontrivial_hashes"] = sorted(hashes)
    except Exception:  # noqa: BLE001
        out["error"] = traceback.format_exc()
    out["wall_s"] = time.time() - t0
    return out


def replay_case(mod, sub_name, case, findings):
    """Run one stored case; returns (status, message, tags)."""
    sub = find_sub(mod, sub_name)
    case = common.unjsonable(case)
    rec = NullRecorder()
    rec._matcher = lambda tg: match_known(mod.ID, sub_name, tg, findings)
    try:
        sub.check(case, rec)
    except Violation as v:
        key = match_known(mod.ID, sub_name, v.tags, findings)
        if key is not None:
            return "known", v.msg, key
        return "violation", v.msg, v.tags
    if rec.known:
        return "known", rec.known[0][1], rec.known[0][0]
    return "ok", "", None


def write_replay(prop_id, viol):
    d = os.path.join(common.VERIF_DIR, "replays", prop_id)
    os.makedirs(d, exist_ok=True)
    h = case_hash({"s": viol["sub"], "c": viol["case"]})
    path = os.path.join(d, f"found_{h}.json")
    with open(path, "w") as f:
        json.dump(
            {
                "property": prop_id,
                "sub": viol["sub"],
                "case": viol["case"],
                "message": viol["message"],
                "tags": viol.get("tags"),
                "detail": viol.get("detail"),
            },
            f,
            indent=1,
        )
    return path


def main():
    ap = argparse.ArgumentParser()
    ap.add_argument("prop")
    ap.add_argument("--tier", default=os.environ.get("VERIF_TIER", "quick"))
    ap.add_argument("--replay", default=None)
    ap.add_argument("--only", default=None, help="comma separated sub-checks")
    ap.add_argument("--no-evidence", action="store_true")
    ap.add_argument("--replays-only", action="store_true", help="run committed regression replays and known-finding probes only")
    a = ap.parse_args()
    tier = a.tier if a.tier in ("quick", "thorough") else "quick"
    try:
        vseed = int(os.environ.get("VERIF_SEED", "1"))
    except ValueError:
        vseed = 1
    t0 = time.time()
    prop_id = a.prop
    try:
        mod = load_prop(prop_id)
    except Exception:  # noqa: BLE001
        traceback.print_exc()
        print(f"HARNESS-ERROR property={prop_id} cannot import check module")
        return 2
    findings = load_known_findings()

    # ---- replay mode -----------------------------------------------------
    if a.replay:
        with open(a.replay) as f:
            rp = json.load(f)
        try:
            status, msg, info = replay_case(mod, rp["sub"], rp["case"], findings)
        except Exception:  # noqa: BLE001
            traceback.print_exc()
            return 2
        if status == "violation":
            print(f"  {msg}")
            print(f"VIOLATION property={prop_id} replay={os.path.abspath(a.replay)}")
            return 1
        if status == "known":
            print(f"KNOWN-FINDING: property={prop_id} {info}: {msg}")
            return 0
        print(f"replay passes: property={prop_id} sub={rp['sub']}")
        return 0

    violations = []
    errors = []
    known_lines = {}

    # optional per-property preparation (e.g. kernel builds for C15)
    if hasattr(mod, "prepare"):
        try:
            mod.prepare(tier)
        except Exception:  # noqa: BLE001
            traceback.print_exc()
            print(f"HARNESS-ERROR property={prop_id} prepare() failed")
            return 2

    # ---- regression tier: committed replays ---------------------------------
    rdir = os.path.join(common.VERIF_DIR, "replays", prop_id)
    n_regress = 0
    if os.path.isdir(rdir):
        for fn in sorted(os.listdir(rdir)):
            if not fn.endswith(".json") or fn.startswith("found_"):
                continue
            with open(os.path.join(rdir, fn)) as f:
                rp = json.load(f)
            if a.only and rp["sub"] not in a.only.split(","):
                continue
            n_regress += 1
            try:
                status, msg, info = replay_case(mod, rp["sub"], rp["case"], findings)
            except Exception:  # noqa: BLE001
                errors.append(f"regression {fn}: " + traceback.format_exc())
                continue
            if status == "violation":
                violations.append(
                    {
                        "sub": rp["sub"],
                        "case": rp["case"],
                        "message": msg,
                        "tags": jsonable(info),
                        "path": os.path.join(rdir, fn),
                    }
                )
            elif status == "known":
                known_lines[info] = msg

    # ---- probes for known findings ------------------------------------------
    n_probe = 0
    for kf in findings:
        if kf.get("property") != prop_id or kf.get("status") != "known":
            continue
        pr = kf.get("probe")
        if not pr:
            continue
        if a.only and pr["sub"] not in a.only.split(","):
            continue
        n_probe += 1
        try:
            status, msg, info = replay_case(mod, pr["sub"], pr["case"], findings)
            if status == "known":
                kk = next((f for f in findings if f.get("key") == info), {})
                known_lines[info] = kk.get("what", msg)
            elif status == "violation":
                violations.append(
                    {
                        "sub": pr["sub"],
                        "case": pr["case"],
                        "message": "probe of known finding "
                        f"{kf['key']} fails differently: {msg}",
                        "tags": jsonable(info),
                    }
                )
        except Exception:  # noqa: BLE001
            errors.append(f"probe {kf['key']}: " + traceback.format_exc())

    # ---- generated search -----------------------------------------------------
    tasks = []
    for sub in mod.SUBS:
        if a.replays_only:
            break
        if a.only and sub.name not in a.only.split(","):
            continue
        ns = sub.shards_quick if tier == "quick" else sub.shards_thorough
        for sh in range(ns):
            tasks.append((prop_id, sub.name, tier, vseed, sh, ns))
    results = []
    if tasks:
        import multiprocessing as mp

        ctx = mp.get_context("fork")
        nproc = min(NCPU, len(tasks))
        if nproc <= 1:
            results = [run_shard(t) for t in tasks]
        else:
            # A shard whose code under test never returns from compiled code (LAPACK looping on NaN after a change of the library)
            # cannot be interrupted from inside: the parent stops waiting after the budgets plus the time allowed for one case,
            # reports those shards as inconclusive and ends their processes; results of the other shards still count.
            budgets = {}
            for s_ in mod.SUBS:
                budgets[s_.name] = s_.budget_quick if tier == "quick" else s_.budget_thorough
            waves = -(-len(tasks) // nproc)
            limit = time.time() + waves * (max(budgets[tk_[1]] for tk_ in tasks) + float(os.environ.get("VERIF_CASE_TIMEOUT", "900"))) + 120.0
            with ctx.Pool(nproc, maxtasksperchild=1) as pool:
                pending = {i_: (tk_, pool.apply_async(run_shard, (tk_,))) for i_, tk_ in enumerate(tasks)}
                while pending and time.time() < limit:
                    for i_ in list(pending):
                        tk_, ar_ = pending[i_]
                        if ar_.ready():
                            results.append(ar_.get())
                            del pending[i_]
                    if pending:
                        time.sleep(0.2)
                for i_, (tk_, _ar) in pending.items():
                    results.append({
                        "sub": tk_[1], "shard": tk_[4], "evaluations": 0, "nontrivial_hashes": [], "samples": [], "labels": {}, "disc": {},
                        "excluded": {"shard_timeout": 1}, "known_hits": {}, "budget_skipped": 1, "violation": None, "error": None, "wall_s": 0.0,
                    })
                pool.terminate()
        results.sort(key=lambda r: (r["sub"], r["shard"]))

    evaluations = 0
    hashes = set()
    samples = []
    labels = {}
    disc = {}
    excluded = {}
    known_hits = {}
    per_sub = {}
    budget_skipped = 0
    for r in results:
        if r["error"]:
            errors.append(f"{r['sub']}[{r['shard']}]: {r['error']}")
        evaluations += r["evaluations"]
        budget_skipped += r["budget_skipped"]
        ps = per_sub.setdefault(
            r["sub"],
            {"evaluations": 0, "distinct_nontrivial": set(), "wall_s": 0.0, "budget_skipped": 0},
        )
        ps["evaluations"] += r["evaluations"]
        ps["wall_s"] = max(ps["wall_s"], r["wall_s"])
        ps["budget_skipped"] += r["budget_skipped"]
        for h in r["nontrivial_hashes"]:
            hashes.add((r["sub"], h))
            ps["distinct_nontrivial"].add(h)
        for s in r["samples"]:
            if sum(1 for x in samples if x["sub"] == r["sub"]) < 2:
                samples.append(s)
        for k, v in r["labels"].items():
            labels[k] = labels.get(k, 0) + v
        for k, v in r["disc"].items():
            kk = f"{r['sub']}.{k}"
            disc[kk] = max(disc.get(kk, 0.0), v)
        for k, v in r["excluded"].items():
            excluded[k] = excluded.get(k, 0) + v
        for k, v in r["known_hits"].items():
            known_hits[k] = known_hits.get(k, 0) + v
        if r["violation"]:
            violations.append(r["violation"])
    for k in known_hits:
        if k not in known_lines:
            kf = next((f for f in findings if f.get("key") == k), {})
            known_lines[k] = kf.get("what", "")

    # ---- report -----------------------------------------------------------
    rc = 0
    for k, what in sorted(known_lines.items()):
        print(f"KNOWN-FINDING: property={prop_id} {k}: {what}")
    seen_paths = set()
    for v in violations:
        path = v.get("path") or write_replay(prop_id, v)
        if path in seen_paths:
            continue
        seen_paths.add(path)
        print(f"  [{v['sub']}] {v['message']}")
        print(f"VIOLATION property={prop_id} replay={path}")
        rc = 1
    if errors:
        for e in errors:
            print("HARNESS-ERROR", e, file=sys.stderr)
        print(f"HARNESS-ERROR property={prop_id} ({len(errors)} errors; see stderr)")
        if rc == 0:
            rc = 2

    wall = time.time() - t0
    if not a.no_evidence and not a.only and not a.replays_only:
        ev = {
            "property_id": prop_id,
            "tier": tier,
            "seed": vseed,
            "level": getattr(mod, "LEVEL", "exploration"),
            "coverage": {
                "evaluations": int(evaluations + n_regress + n_probe),
                "distinct_nontrivial": int(len(hashes)),
                "rule": mod.RULE,
                "samples": samples[:12],
                "per_subcheck": {
                    k: {
                        "evaluations": v["evaluations"],
                        "distinct_nontrivial": len(v["distinct_nontrivial"]),
                        "wall_s": round(v["wall_s"], 2),
                        "budget_skipped": v["budget_skipped"],
                    }
                    for k, v in sorted(per_sub.items())
                },
                "labels": dict(sorted(labels.items())),
                "max_discrepancy_over_tolerance": {
                    k: round(v, 6) for k, v in sorted(disc.items())
                },
                "excluded_known_region": excluded,
                "known_finding_hits": known_hits,
                "known_findings_reported": sorted(known_lines),
                "regression_replays": n_regress,
                "known_probes": n_probe,
                "budget_skipped": budget_skipped,
                "exhaustive": False,
            },
            "assumptions": list(getattr(mod, "ASSUMPTIONS", [])),
            "wall_s": round(wall, 2),
            "violations": len(seen_paths),
        }
        os.makedirs(os.path.join(common.VERIF_DIR, "evidence"), exist_ok=True)
        with open(os.path.join(common.VERIF_DIR, "evidence", f"{prop_id}.json"), "w") as f:
            json.dump(ev, f, indent=1)
    print(
        f"{prop_id} tier={tier} seed={vseed}: evaluations={evaluations} "
        f"distinct_nontrivial={len(hashes)} violations={len(seen_paths)} "
        f"known={len(known_lines)} errors={len(errors)} wall={wall:.1f}s"
    )
    return rc


if __name__ == "__main__":
    sys.exit(main())

"""Common machinery: violations, recorder, known findings, hashing, seeds.

Every property module (harness/props/Cxx.py) exposes

    ID     = "Cxx"
    RULE   = "<how cases are generated / what is non-trivial and distinct>"
    LEVEL  = "exploration"
    ASSUMPTIONS = [...]
    SUBS   = [Sub(...), ...]

A Sub couples a Hypothesis strategy producing a JSON-serialisable *case dict*
with a pure ``check(case, rec)`` function that runs the code under test and
raises :class:`Violation` when the oracle disagrees.  ``check`` must be a pure
function of ``case`` (and of the tree), so that a case written to a replay file
re-executes without Hypothesis.
"""

import hashlib
import json
import math
import os
import sys
import warnings

import numpy as np

VERIF_DIR = os.path.dirname(os.path.dirname(os.path.abspath(__file__)))
REPO = os.environ.get("VERIF_REPO", "/repo")


def setup_import_path():
    """Make ``import gstools`` resolve to $VERIF_REPO/src (default /repo)."""
    src = os.path.join(REPO, "src")
    if src not in sys.path:
        sys.path.insert(0, src)
    if os.path.dirname(os.path.abspath(__file__)) not in sys.path:
        sys.path.insert(0, os.path.dirname(os.path.abspath(__file__)))


setup_import_path()


class Violation(Exception):
    """The oracle disagrees with the code under test."""

    def __init__(self, msg, tags=None, detail=None):
        super().__init__(msg)
        self.msg = msg
        self.tags = dict(tags or {})
        self.detail = detail


class HarnessError(Exception):
    """Something is wrong with the machinery itself (exit code 2)."""


class Sub:
    """One sub-check of a property."""

    def __init__(
        self,
        name,
        gen,
        check,
        quick=100,
        thorough=1000,
        shards_quick=1,
        shards_thorough=4,
        nontrivial=None,
        shrink_quick=True,
        doc="",
        budget_quick=120.0,
        budget_thorough=1500.0,
    ):
        self.name = name
        self.gen = gen  # callable(tier) -> strategy
        self.check = check  # callable(case, rec)
        self.quick = quick
        self.thorough = thorough
        self.shards_quick = shards_quick
        self.shards_thorough = shards_thorough
        self.nontrivial = nontrivial  # callable(case) -> bool, or None
        self.shrink_quick = shrink_quick
        self.doc = doc
        self.budget_quick = budget_quick
        self.budget_thorough = budget_thorough


class Recorder:
    """Per-case recorder handed to check functions."""

    def __init__(self):
        self.labels = []
        self._nontrivial = None
        self.disc = {}
        self.excluded = []
        self.notes = {}
        self.known = []
        self._matcher = None

    def label(self, *names):
        for n in names:
            self.labels.append(str(n))

    def nontrivial(self, flag=True):
        """Mark the case (non-)trivial by the property's stated rule."""
        if self._nontrivial is None:
            self._nontrivial = bool(flag)
        else:
            self._nontrivial = self._nontrivial or bool(flag)

    def discrepancy(self, name, value, tol):
        """Record an observed discrepancy relative to its tolerance."""
        if tol is None or not (tol > 0) or not np.isfinite(value):
            return
        r = float(value) / float(tol)
        if r > self.disc.get(name, 0.0):
            self.disc[name] = r

    def exclude(self, key):
        """Count a (sub-)case skipped because it lies in a known-finding region."""
        self.excluded.append(str(key))

    def note(self, key, val):
        self.notes[key] = val

    def soft(self, msg, tags=None, detail=None):
        """Report a deviation inside a longer case (history).

        If it matches a *known* finding it is counted and the check may go on
        (returns the finding key); otherwise it is raised as a Violation.
        """
        key = self._matcher(tags or {}) if self._matcher else None
        if key is None:
            raise Violation(msg, tags=tags, detail=detail)
        self.known.append((key, msg))
        return key


class NullRecorder(Recorder):
    pass


# ---------------------------------------------------------------------------
# JSON helpers


def jsonable(x):
    """Convert numpy containers to plain JSON-serialisable python objects."""
    if isinstance(x, dict):
        return {str(k): jsonable(v) for k, v in x.items()}
    if isinstance(x, (list, tuple)):
        return [jsonable(v) for v in x]
    if isinstance(x, np.ndarray):
        return jsonable(x.tolist())
    if isinstance(x, (np.floating,)):
        return jsonable(float(x))
    if isinstance(x, (np.integer,)):
        return int(x)
    if isinstance(x, (np.bool_,)):
        return bool(x)
    if isinstance(x, float):
        if math.isnan(x):
            return "nan"
        if math.isinf(x):
            return "inf" if x > 0 else "-inf"
        return x
    return x


def unjson_float(x):
    """Inverse of the float special-casing of :func:`jsonable`."""
    if isinstance(x, str):
        if x == "nan":
            return float("nan")
        if x == "inf":
            return float("inf")
        if x == "-inf":
            return float("-inf")
    return x


def unjsonable(x):
    """Recursively restore 'nan' / 'inf' / '-inf' strings written by jsonable."""
    if isinstance(x, dict):
        return {k: unjsonable(v) for k, v in x.items()}
    if isinstance(x, list):
        return [unjsonable(v) for v in x]
    return unjson_float(x)


def farr(x):
    """JSON list (possibly with 'nan'/'inf' strings) -> float ndarray."""

    def conv(v):
        if isinstance(v, list):
            return [conv(u) for u in v]
        return unjson_float(v)

    return np.array(conv(x), dtype=np.double)


def _round_sig(x, sig=6):
    if isinstance(x, float):
        if x == 0 or not math.isfinite(x):
            return x
        return float(f"{x:.{sig}g}")
    if isinstance(x, dict):
        return {k: _round_sig(v, sig) for k, v in sorted(x.items())}
    if isinstance(x, (list, tuple)):
        return [_round_sig(v, sig) for v in x]
    return x


def case_hash(case, sig=6):
    """Canonical short hash of a case (floats rounded to ``sig`` digits)."""
    s = json.dumps(_round_sig(jsonable(case), sig), sort_keys=True)
    return hashlib.sha256(s.encode()).hexdigest()[:16]


def derive_seed(*parts):
    s = ":".join(str(p) for p in parts)
    return int(hashlib.sha256(s.encode()).hexdigest()[:12], 16)


# ---------------------------------------------------------------------------
# known findings


def load_known_findings():
    out = []
    path = os.path.join(VERIF_DIR, "known_findings.json")
    if os.path.exists(path):
        with open(path) as f:
            out += json.load(f).get("findings", [])
    return out


def _match_value(pred, val):
    if isinstance(pred, dict):
        for op, ref in pred.items():
            if op == "in":
                if val not in ref:
                    return False
            elif op == "ge":
                if val is None or not val >= ref:
                    return False
            elif op == "gt":
                if val is None or not val > ref:
                    return False
            elif op == "le":
                if val is None or not val <= ref:
                    return False
            elif op == "lt":
                if val is None or not val < ref:
                    return False
            elif op == "ne":
                if val == ref:
                    return False
            else:
                raise HarnessError(f"unknown match operator {op}")
        return True
    return pred == val


def match_known(prop_id, sub_name, tags, findings):
    """Return the key of a *known* finding whose predicate matches ``tags``."""
    full = dict(tags)
    full.setdefault("sub", sub_name)
    for kf in findings:
        if kf.get("property") != prop_id or kf.get("status") != "known":
            continue
        m = kf.get("match", {})
        if not m:
            continue  # a blanket match is never allowed
        ok = True
        for k, pred in m.items():
            if k not in full or not _match_value(pred, full[k]):
                ok = False
                break
        if ok:
            return kf["key"]
    return None


# ---------------------------------------------------------------------------
# library call helpers


class quiet:
    """Context manager silencing warnings and numpy floating point noise."""

    def __enter__(self):
        self._w = warnings.catch_warnings()
        self._w.__enter__()
        warnings.simplefilter("ignore")
        self._e = np.errstate(all="ignore")
        self._e.__enter__()
        return self

    def __exit__(self, *exc):
        self._e.__exit__(*exc)
        self._w.__exit__(*exc)
        return False


def lib(fn, *args, _what=None, _tags=None, **kwargs):
    """Call library code on a *valid* input: any exception is a violation."""
    try:
        with quiet():
            return fn(*args, **kwargs)
    except Violation:
        raise
    except Exception as exc:  # noqa: BLE001
        what = _what or getattr(fn, "__name__", str(fn))
        tags = dict(_tags or {})
        tags.setdefault("kind", "exception")
        tags.setdefault("exc", type(exc).__name__)
        raise Violation(
            f"{what} raised {type(exc).__name__}: {exc}", tags=tags
        ) from exc


def require(cond, msg, tags=None, detail=None):
    if not cond:
        raise Violation(msg, tags=tags, detail=detail)


def close(a, b, rtol=0.0, atol=0.0):
    """max |a-b| <= atol + rtol*max|b| (NaN-aware: NaN pattern must agree)."""
    a = np.asarray(a, dtype=float)
    b = np.asarray(b, dtype=float)
    if a.shape != b.shape:
        return False, float("inf")
    na, nb = np.isnan(a), np.isnan(b)
    if not np.array_equal(na, nb):
        return False, float("inf")
    if a.size == 0:
        return True, 0.0
    m = ~na
    ia, ib = np.isinf(a) & m, np.isinf(b) & m
    if not np.array_equal(ia, ib) or not np.array_equal(a[ia], b[ib]):
        return False, float("inf")
    m &= ~ia
    if not m.any():
        return True, 0.0
    err = float(np.max(np.abs(a[m] - b[m])))
    scale = float(np.max(np.abs(b[m])))
    return err <= atol + rtol * scale, err

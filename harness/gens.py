"""Hypothesis strategies shared by the property modules.

All strategies produce plain JSON-serialisable python values.  A *model spec*
is a dict understood by :func:`build_model`.
"""

import math
import warnings

import numpy as np
from hypothesis import strategies as st

import common  # noqa: F401  (sets import path)
import gstools as gs

CLASSES = [
    "Gaussian",
    "Exponential",
    "Matern",
    "Integral",
    "Stable",
    "Rational",
    "Cubic",
    "Linear",
    "Circular",
    "Spherical",
    "HyperSpherical",
    "SuperSpherical",
    "JBessel",
    "TPLGaussian",
    "TPLExponential",
    "TPLStable",
    "TPLSimple",
]

# classes with an analytic spectral density override
ANALYTIC_SPECTRUM = [
    "Gaussian",
    "Exponential",
    "Matern",
    "Integral",
    "HyperSpherical",
    "JBessel",
    "TPLGaussian",
    "TPLExponential",
]
HANKEL_SPECTRUM = [c for c in CLASSES if c not in ANALYTIC_SPECTRUM]
COMPACT = [
    "Cubic",
    "Linear",
    "Circular",
    "Spherical",
    "HyperSpherical",
    "SuperSpherical",
    "TPLSimple",
]
TPL = ["TPLGaussian", "TPLExponential", "TPLStable"]


def max_valid_dim(cls):
    """Largest dimension accepted without an invalid-dimension warning.

    Derived from the documented validity of each model (``check_dim``); the
    table itself is cross-checked against the library in C02.
    """
    return {"Linear": 1, "Circular": 2, "Spherical": 3, "Cubic": 3}.get(cls, 99)  # Cubic: since /repo fix 284b91a the library warns too


def valid_dims(cls, dims=(1, 2, 3)):
    return [d for d in dims if d <= max_valid_dim(cls)]


def logfloat(lo, hi):
    return st.floats(math.log(lo), math.log(hi), allow_nan=False).map(
        lambda x: float(math.exp(x))
    )


def opt_bounds(cls, dim):
    """Documented opt-arg bounds: name -> (lo, hi, lo_closed, hi_closed)."""
    if cls == "Stable":
        return {"alpha": (0.0, 2.0, False, True)}
    if cls == "Matern":
        return {"nu": (0.2, 30.0, True, True)}
    if cls == "Integral":
        return {"nu": (0.0, 50.0, False, True)}
    if cls == "Rational":
        return {"alpha": (0.5, 50.0, True, True)}
    if cls == "SuperSpherical":
        return {"nu": ((dim - 1) / 2, 50.0, True, True)}
    if cls == "JBessel":
        return {"nu": (dim / 2 - 1, 50.0, True, True)}
    if cls == "TPLSimple":
        return {"nu": ((dim + 1) / 2, 50.0, True, True)}
    if cls in ("TPLGaussian", "TPLExponential"):
        return {
            "hurst": (0.1, 1.0, False, False),
            "len_low": (0.0, math.inf, True, False),
        }
    if cls == "TPLStable":
        return {
            "hurst": (0.1, 1.0, False, False),
            "alpha": (0.0, 2.0, False, True),
            "len_low": (0.0, math.inf, True, False),
        }
    return {}


@st.composite
def opt_args(draw, cls, dim, mode="accuracy", default_prob=0.25):
    """Draw optional arguments for a class.

    mode:
      * "accuracy": inside the bounds, away from regions the library itself
        flags as unstable (Stable/TPLStable alpha<0.3, JBessel nu within 0.01 of
        d/2-1) and with moderate magnitudes so that closed forms are well
        conditioned.
      * "full": the whole bounds with boundary values over-sampled.
    """
    if draw(st.floats(0, 1)) < default_prob:
        return {}
    out = {}
    full = mode == "full"
    if cls in ("Stable", "TPLStable"):
        lo = 0.02 if full else 0.3
        a = draw(
            st.one_of(
                st.floats(lo, 2.0),
                st.sampled_from([2.0, 1.0, 0.5, lo]),
            )
        )
        out["alpha"] = float(a)
    if cls == "Matern":
        hi = 30.0 if full else 20.0
        out["nu"] = float(
            draw(
                st.one_of(
                    st.floats(0.2, hi),
                    logfloat(0.2, hi),
                    st.sampled_from([0.2, 0.5, 1.5, 2.5, 20.0] + ([30.0, 20.5] if full else [])),
                )
            )
        )
    if cls == "Integral":
        out["nu"] = float(
            draw(
                st.one_of(
                    logfloat(0.05 if not full else 1e-3, 50.0),
                    st.sampled_from([1.0, 2.0, 50.0, 0.5]),
                )
            )
        )
    if cls == "Rational":
        out["alpha"] = float(
            draw(st.one_of(logfloat(0.5, 50.0), st.sampled_from([0.5, 1.0, 50.0])))
        )
    if cls == "SuperSpherical":
        lo = (dim - 1) / 2
        out["nu"] = float(
            draw(
                st.one_of(
                    st.floats(lo, lo + 3.0),
                    logfloat(max(lo, 0.01), 50.0),
                    st.sampled_from([lo, lo + 0.5, 50.0]),
                )
            )
        )
    if cls == "JBessel":
        lo = dim / 2 - 1
        eps = 0.0 if full else 0.02
        out["nu"] = float(
            draw(
                st.one_of(
                    st.floats(lo + eps, lo + 3.0),
                    st.floats(lo + eps, 50.0 if full else 15.0),
                    st.sampled_from([lo + max(eps, 0.0), dim / 2, 0.5 if 0.5 >= lo + eps else dim / 2]),
                )
            )
        )
    if cls == "TPLSimple":
        lo = (dim + 1) / 2
        out["nu"] = float(
            draw(
                st.one_of(
                    st.floats(lo, lo + 3.0),
                    logfloat(lo, 50.0),
                    st.sampled_from([lo, 50.0]),
                )
            )
        )
    if cls in TPL:
        hlo, hhi = (0.1001, 0.9999) if full else (0.11, 0.99)
        out["hurst"] = float(
            draw(st.one_of(st.floats(hlo, hhi), st.sampled_from([hlo, 0.25, 0.5, hhi])))
        )
        out["len_low"] = float(
            draw(
                st.one_of(
                    st.just(0.0),
                    logfloat(1e-3, 1e2),
                    st.sampled_from([0.0, 1.0]),
                )
            )
        )
    return out


@st.composite
def model_specs(
    draw,
    classes=None,
    dims=(1, 2, 3),
    mode="accuracy",
    aniso=True,
    rotate=True,
    nugget=True,
    rescale=True,
    scale_range=(1e-2, 1e2),
    var_range=(1e-2, 1e2),
    allow_invalid_dim=False,
):
    cls = draw(st.sampled_from(classes or CLASSES))
    dd = list(dims) if allow_invalid_dim else valid_dims(cls, dims)
    if not dd:
        dd = valid_dims(cls, (1, 2, 3))
    dim = draw(st.sampled_from(dd))
    spec = {"cls": cls, "dim": dim}
    spec["var"] = draw(st.one_of(st.just(1.0), logfloat(*var_range)))
    spec["len_scale"] = draw(st.one_of(st.just(1.0), logfloat(*scale_range)))
    if nugget:
        spec["nugget"] = draw(st.one_of(st.just(0.0), st.just(0.0), logfloat(1e-3, 10.0)))
    else:
        spec["nugget"] = 0.0
    if rescale:
        spec["rescale"] = draw(st.one_of(st.none(), st.none(), logfloat(0.2, 5.0)))
    else:
        spec["rescale"] = None
    if aniso and dim > 1:
        spec["anis"] = draw(
            st.one_of(
                st.just([1.0] * (dim - 1)),
                st.lists(logfloat(0.1, 10.0), min_size=dim - 1, max_size=dim - 1),
            )
        )
    else:
        spec["anis"] = [1.0] * (dim - 1)
    nang = dim * (dim - 1) // 2
    if rotate and dim > 1:
        spec["angles"] = draw(
            st.one_of(
                st.just([0.0] * nang),
                st.lists(
                    st.one_of(
                        st.floats(-2 * math.pi, 2 * math.pi),
                        st.sampled_from([0.0, math.pi / 2, -math.pi / 2, math.pi]),
                    ),
                    min_size=nang,
                    max_size=nang,
                ),
            )
        )
    else:
        spec["angles"] = [0.0] * nang
    spec["opt"] = draw(opt_args(cls, dim, mode=mode))
    return spec


def build_model(spec, **override):
    """Instantiate the gstools model described by ``spec`` (warnings silenced)."""
    s = dict(spec)
    s.update(override)
    cls = getattr(gs, s["cls"])
    kw = {}
    for k in ("var", "len_scale", "nugget", "anis", "angles", "rescale"):
        if k in s and s[k] is not None:
            kw[k] = s[k]
    for k in ("latlon", "temporal", "geo_scale", "spatial_dim", "hankel_kw", "integral_scale", "var_raw"):
        if k in s and s[k] is not None:
            kw[k] = s[k]
    if "spatial_dim" not in kw:
        kw["dim"] = s.get("dim", 3)
    kw.update(s.get("opt", {}))
    with warnings.catch_warnings():
        warnings.simplefilter("ignore")
        return cls(**kw)


def spec_is_default(spec):
    """Isotropic unit model with default optional arguments?"""
    return (
        spec.get("var", 1.0) == 1.0
        and spec.get("len_scale", 1.0) == 1.0
        and spec.get("nugget", 0.0) == 0.0
        and spec.get("rescale") is None
        and all(a == 1.0 for a in spec.get("anis", []))
        and all(a == 0.0 for a in spec.get("angles", []))
        and not spec.get("opt")
    )


def spec_tags(spec):
    t = {"model": spec["cls"], "dim": spec.get("dim")}
    for k, v in spec.get("opt", {}).items():
        t[k] = v
    return t


@st.composite
def point_cloud(draw, dim, n_min=2, n_max=20, scale=1.0, kinds=("cloud", "cluster", "lattice")):
    """(dim, n) list-of-lists point set."""
    kind = draw(st.sampled_from(list(kinds)))
    n = draw(st.integers(n_min, n_max))
    if kind == "lattice":
        pts = draw(
            st.lists(
                st.lists(st.integers(-4, 4), min_size=dim, max_size=dim),
                min_size=n,
                max_size=n,
            )
        )
        arr = np.array(pts, dtype=float).T * scale
    elif kind == "cluster":
        nc = draw(st.integers(1, 3))
        centers = draw(
            st.lists(
                st.lists(st.floats(-3, 3), min_size=dim, max_size=dim),
                min_size=nc,
                max_size=nc,
            )
        )
        offs = draw(
            st.lists(
                st.tuples(
                    st.integers(0, nc - 1),
                    st.lists(st.floats(-0.2, 0.2), min_size=dim, max_size=dim),
                ),
                min_size=n,
                max_size=n,
            )
        )
        arr = np.array([np.array(centers[i]) + np.array(o) for i, o in offs]).T * scale
    else:
        pts = draw(
            st.lists(
                st.lists(st.floats(-3, 3), min_size=dim, max_size=dim),
                min_size=n,
                max_size=n,
            )
        )
        arr = np.array(pts, dtype=float).T * scale
    return arr.reshape(dim, -1).tolist()


def min_separation(pos):
    pos = np.asarray(pos, dtype=float)
    n = pos.shape[1]
    if n < 2:
        return math.inf
    d = np.linalg.norm(pos[:, :, None] - pos[:, None, :], axis=0)
    d[np.diag_indices(n)] = np.inf
    return float(d.min())


@st.composite
def separated_points(draw, dim, n_min=2, n_max=12, box=3.0, min_sep=0.25):
    """Points on a jittered lattice: pairwise separation >= min_sep by construction."""
    n = draw(st.integers(n_min, n_max))
    m = int(math.ceil(n ** (1.0 / dim))) + 1
    cells = [
        tuple(idx)
        for idx in np.ndindex(*([m] * dim))
    ]
    chosen = draw(
        st.lists(st.sampled_from(cells), min_size=n, max_size=n, unique=True)
    )
    h = 2 * box / m
    jit_max = max(0.0, (h - min_sep) / 2)
    jit = draw(
        st.lists(
            st.lists(st.floats(-1, 1), min_size=dim, max_size=dim),
            min_size=n,
            max_size=n,
        )
    )
    pts = []
    for c, j in zip(chosen, jit):
        pts.append([-box + (ci + 0.5) * h + jj * jit_max for ci, jj in zip(c, j)])
    return np.array(pts, dtype=float).T.reshape(dim, -1).tolist()

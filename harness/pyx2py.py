"""Translate the (restricted) Cython used by GSTools' kernels into plain Python.

The translation keeps statement order and arithmetic exactly, drops C type
declarations, maps prange/parallel to range / `if True`, and binds libc math
names to libm through Python's math module (sqrt of a negative number returns
NaN like in C instead of raising).  It is *not* a general Cython translator:
anything it does not understand raises TranslateError, which the check reports
as a harness error (exit 2), never as a pass.
"""

import math
import re

import numpy as np


class TranslateError(Exception):
    pass


TYPE_WORDS = (
    r"(?:const\s+)?(?:unsigned\s+)?"
    r"(?:double|int|bint|long|float|str|uint8|np\.int64_t|_dist_func|_estimator_func|_normalization_func_vec|_normalization_func|Py_ssize_t)"
    r"(?:\s*\[[:,\s]*\])?"
)


def _strip_param(p):
    """'const double[:, :] pos' -> 'pos';  'str estimator_type=\\'m\\'' -> "estimator_type='m'"."""
    p = p.strip()
    if not p:
        return p
    m = re.match(rf"^{TYPE_WORDS}\s+(\w+\s*(?:=.*)?)$", p, re.S)
    if m:
        return m.group(1).strip()
    if re.match(r"^\w+\s*(=.*)?$", p, re.S):
        return p
    raise TranslateError(f"cannot parse parameter: {p!r}")


def _split_params(s):
    out, depth, cur = [], 0, ""
    for ch in s:
        if ch in "([{":
            depth += 1
        elif ch in ")]}":
            depth -= 1
        if ch == "," and depth == 0:
            out.append(cur)
            cur = ""
        else:
            cur += ch
    if cur.strip():
        out.append(cur)
    return out


def _strip_comment(line):
    """Remove a trailing comment (a '#' outside of string literals)."""
    quote = None
    for pos, ch in enumerate(line):
        if quote:
            if ch == quote:
                quote = None
        elif ch in "'\"":
            quote = ch
        elif ch == "#":
            return line[:pos].rstrip()
    return line


def _rewrite_pow(line):
    """'X**N' -> '_pow(X, N)' (Cython compiles ** on C doubles to libm pow)."""
    while True:
        pos = line.find("**")
        if pos < 0:
            return line
        # right operand: a numeric literal or a name
        m = re.match(r"\s*([\w\.]+)", line[pos + 2 :])
        if not m:
            raise TranslateError(f"cannot parse exponent in: {line!r}")
        right_end = pos + 2 + m.end()
        # left operand: scan backwards over a balanced (...) / name[...] expression
        j = pos - 1
        while j >= 0 and line[j] == " ":
            j -= 1
        depth = 0
        k = j
        while k >= 0:
            ch = line[k]
            if ch in ")]":
                depth += 1
            elif ch in "([":
                depth -= 1
                if depth < 0:
                    break
            elif depth == 0 and not (ch.isalnum() or ch in "_."):
                break
            k -= 1
        left = line[k + 1 : j + 1]
        if not left.strip():
            raise TranslateError(f"cannot parse base of ** in: {line!r}")
        line = line[: k + 1] + f"_pow({left}, {m.group(1)})" + line[right_end:]


def _join_statement(lines, i):
    """Join physical lines until parentheses are balanced; returns (text, next index)."""
    lines = [_strip_comment(ln) for ln in lines]
    text = lines[i]
    depth = text.count("(") - text.count(")") + text.count("[") - text.count("]")
    j = i + 1
    while depth > 0:
        if j >= len(lines):
            raise TranslateError("unbalanced parentheses")
        text += "\n" + lines[j]
        depth += lines[j].count("(") - lines[j].count(")") + lines[j].count("[") - lines[j].count("]")
        j += 1
    return text, j


def translate(src):
    # known typo in estimator.pyx (an f-string that only matters on the error path)
    src = src.replace("{f.shape[1])}", "{f.shape[1]}")
    lines = src.split("\n")
    out = []
    i = 0
    while i < len(lines):
        line = lines[i]
        stripped = line.strip()
        indent = line[: len(line) - len(line.lstrip())]
        # comments / blank
        if not stripped or stripped.startswith("#"):
            out.append(line)
            i += 1
            continue
        # imports that only exist in Cython
        if re.match(r"^(cimport\s|from\s+\S+\s+cimport\s)", stripped):
            out.append(indent + "pass")
            i += 1
            continue
        if stripped.startswith("from cython.parallel import"):
            out.append(indent + "pass")
            i += 1
            continue
        # ctypedef (possibly multi-line)
        if stripped.startswith("ctypedef"):
            _t, i = _join_statement(lines, i)
            continue
        # cdef function definitions
        m = re.match(r"^cdef\s+(?:inline\s+)?(?:\(?[\w\.]+\)?)\s+(\w+)\s*\(", stripped)
        if m and not re.match(r"^cdef\s+(?:inline\s+)?[\w\.\[\]:, ]+\s+\w+\s*=", stripped):
            text, i = _join_statement(lines, i)
            text1 = " ".join(t.strip() for t in text.split("\n"))
            mm = re.match(r"^cdef\s+(?:inline\s+)?(?:\(?[\w\.]+\)?)\s+(\w+)\s*\((.*)\)\s*(?:nogil)?\s*:\s*$", text1)
            if not mm:
                raise TranslateError(f"cannot parse cdef function: {text1!r}")
            params = ", ".join(_strip_param(p) for p in _split_params(mm.group(2)))
            out.append(f"{indent}def {mm.group(1)}({params}):")
            continue
        # def with typed parameters
        if re.match(r"^def\s+\w+\s*\(", stripped):
            text, i = _join_statement(lines, i)
            text1 = " ".join(t.strip() for t in text.split("\n"))
            mm = re.match(r"^def\s+(\w+)\s*\((.*)\)\s*:\s*$", text1)
            if not mm:
                raise TranslateError(f"cannot parse def: {text1!r}")
            params = ", ".join(_strip_param(p) for p in _split_params(mm.group(2)) if p.strip())
            out.append(f"{indent}def {mm.group(1)}({params}):")
            continue
        # cdef variable declarations
        if stripped.startswith("cdef "):
            text, i = _join_statement(lines, i)
            text1 = " ".join(t.strip() for t in text.split("\n"))
            mm = re.match(rf"^cdef\s+{TYPE_WORDS}\s+(.*)$", text1)
            if not mm:
                raise TranslateError(f"cannot parse cdef: {text1!r}")
            rest = mm.group(1)
            if "=" in rest:
                out.append(indent + rest)
            else:
                out.append(indent + "pass")
            continue
        # parallel constructs
        mm = re.match(r"^for\s+(\w+)\s+in\s+prange\((.*)\)\s*:\s*$", stripped)
        if mm:
            args = [a for a in _split_params(mm.group(2)) if not re.match(r"^\s*(nogil|num_threads|schedule)\s*=", a)]
            out.append(f"{indent}for {mm.group(1)} in range({', '.join(a.strip() for a in args)}):")
            i += 1
            continue
        if re.match(r"^with\s+nogil\s*,\s*parallel\(.*\)\s*:\s*$", stripped) or re.match(r"^with\s+nogil\s*:\s*$", stripped):
            out.append(indent + "if True:")
            i += 1
            continue
        out.append(line)
        i += 1
    out = [_rewrite_pow(ln) if "**" in ln and not ln.lstrip().startswith("#") else ln for ln in out]
    return "\n".join(out)


def _sqrt(x):
    x = float(x)
    if x != x or x < 0:
        return math.nan
    return math.sqrt(x)


def _acos(x):
    x = float(x)
    if x != x or x < -1 or x > 1:
        return math.nan
    return math.acos(x)


def _pow(a, b):
    if isinstance(a, (int, np.integer)) and isinstance(b, (int, np.integer)):
        return int(a) ** int(b)
    return math.pow(float(a), float(b))


class _OpenMP:
    @staticmethod
    def omp_get_num_procs():
        return 1


def load(path):
    """Translate and execute a .pyx file; returns its namespace as a dict."""
    with open(path) as f:
        src = f.read()
    py = translate(src)
    ns = {
        "__name__": "pyx_" + path.replace("/", "_"),
        "OPENMP": False,
        "openmp": _OpenMP,
        "np": np,
        "cos": math.cos,
        "sin": math.sin,
        "sqrt": _sqrt,
        "fabs": lambda x: abs(float(x)),
        "isnan": lambda x: float(x) != float(x),
        "pow": lambda a, b: math.pow(a, b),
        "_pow": _pow,
        "acos": _acos,
        "atan2": math.atan2,
        "M_PI": math.pi,
    }
    try:
        code = compile(py, path + " (translated)", "exec")
    except SyntaxError as e:
        raise TranslateError(f"translated source of {path} does not compile: {e}") from e
    exec(code, ns)  # noqa: S102
    ns["__translated_source__"] = py
    return ns

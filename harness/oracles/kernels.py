"""numpy references of the defining sums of the compiled kernels.

Written from the docstrings / formulas and vectorised differently from the
kernels (matrix products, distance matrices), so that a wrong but
self-consistent kernel shows up.  Every function also returns the magnitude
sum(|terms|) used to scale the rounding tolerance.
"""

import numpy as np


EPS = np.finfo(float).eps


def _phase_term(k, amp, x):
    """Sensitivity to rounding of the phases: sum_j amp_j * (|k_j| . |x|) in units of eps."""
    return 4.0 * EPS / 1e-12 * (amp @ (np.abs(k).T @ np.abs(x)))


def summate(k, z1, z2, x):
    ph = k.T @ x  # (N, n)
    c, s = np.cos(ph), np.sin(ph)
    val = z1 @ c + z2 @ s
    mag = np.abs(z1) @ np.abs(c) + np.abs(z2) @ np.abs(s)
    return val, mag + _phase_term(k, np.abs(z1) + np.abs(z2), x)


def summate_fourier(sf, k, z1, z2, x):
    ph = k.T @ x
    c, s = np.cos(ph), np.sin(ph)
    val = (sf * z1) @ c + (sf * z2) @ s
    mag = np.abs(sf * z1) @ np.abs(c) + np.abs(sf * z2) @ np.abs(s)
    return val, mag + _phase_term(k, np.abs(sf) * (np.abs(z1) + np.abs(z2)), x)


def summate_incompr(k, z1, z2, x):
    dim = k.shape[0]
    ph = k.T @ x
    amp = z1[:, None] * np.cos(ph) + z2[:, None] * np.sin(ph)  # (N, n)
    k2 = np.sum(k**2, axis=0)
    e1 = np.zeros(dim)
    e1[0] = 1.0
    with np.errstate(all="ignore"):
        proj = e1[:, None] - k * k[0] / k2  # (dim, N)
    val = proj @ amp
    mag = np.abs(proj) @ np.abs(amp)
    # rounding of the phases and of the projector (relative error of k k_1/|k|^2 ~ a few eps)
    ph_sens = (np.abs(z1) + np.abs(z2))[:, None] * (np.abs(k).T @ np.abs(x))  # (N, n)
    mag = mag + 4.0 * EPS / 1e-12 * (np.abs(proj) @ ph_sens) + (np.abs(k * k[0] / k2) @ np.abs(amp))
    return val, mag


def krige(mat, vecs, cond):
    field = cond @ mat @ vecs
    err = np.einsum("ik,ij,jk->k", vecs, mat, vecs)
    magf = np.abs(cond) @ np.abs(mat) @ np.abs(vecs)
    mage = np.einsum("ik,ij,jk->k", np.abs(vecs), np.abs(mat), np.abs(vecs))
    return field, err, magf, mage


def _finish(sums, counts, est):
    cnt = np.maximum(counts, 1).astype(float)
    if est == "m":
        return sums / (2.0 * cnt)
    return 0.5 * (sums / cnt) ** 4 / (0.457 + 0.494 / cnt + 0.045 / cnt**2)


def unstructured_euclid(f, edges, pos, est):
    """(values, counts, min relative distance of a pair to an edge)."""
    n = pos.shape[1]
    iu = np.triu_indices(n, 1)
    d = np.sqrt(np.sum((pos[:, iu[0]] - pos[:, iu[1]]) ** 2, axis=0))
    nb = len(edges) - 1
    sums = np.zeros(nb)
    counts = np.zeros(nb, dtype=np.int64)
    tie = np.inf
    if d.size:
        scale = max(float(np.max(np.abs(edges))), 1e-300)
        tie = float(np.min(np.abs(d[:, None] - edges[None, :]))) / scale
    b = np.searchsorted(edges, d, side="right") - 1  # edges[b] <= d < edges[b+1]
    inb = (b >= 0) & (b < nb)
    for m in range(f.shape[0]):
        diff = f[m, iu[0]] - f[m, iu[1]]
        ok = inb & ~np.isnan(diff)
        term = diff**2 if est == "m" else np.sqrt(np.abs(diff))
        np.add.at(sums, b[ok], term[ok])
        np.add.at(counts, b[ok], 1)
    return _finish(sums, counts, est), counts, tie


def structured(f, est, mask=None):
    n0 = f.shape[0]
    sums = np.zeros(n0)
    counts = np.zeros(n0, dtype=np.int64)
    for k in range(1, n0):
        diff = f[:-k] - f[k:]
        if mask is not None:
            ok = (mask[:-k] == 0) & (mask[k:] == 0)
        else:
            ok = np.ones(diff.shape, dtype=bool)
        term = diff**2 if est == "m" else np.sqrt(np.abs(diff))
        sums[k] = np.sum(term[ok])
        counts[k] = int(np.sum(ok))
    return _finish(sums, counts, est)

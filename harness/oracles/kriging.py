"""Independent kriging oracle: assemble and solve the kriging system directly.

Nothing here touches gstools' Krige class.  Covariances come from a callable
(usually ``model.covariance``, the public model function that C03 checks
against closed forms); geometry comes from oracles.geometry.
"""

import numpy as np

from oracles import geometry as geo


def pairwise(a, b):
    """Euclidean distance matrix between columns of a (d,n) and b (d,m)."""
    a = np.asarray(a, dtype=float)
    b = np.asarray(b, dtype=float)
    d2 = np.zeros((a.shape[1], b.shape[1]))
    for k in range(a.shape[0]):
        d2 += (a[k][:, None] - b[k][None, :]) ** 2
    return np.sqrt(d2)


def solve_system(A, B):
    """Solve A X = B; minimum-norm least squares when A is singular."""
    try:
        c = np.linalg.cond(A)
    except np.linalg.LinAlgError:
        c = np.inf
    if np.isfinite(c) and c < 1e13:
        return np.linalg.solve(A, B), c
    return np.linalg.lstsq(A, B, rcond=None)[0], c


def krige(
    cov,
    sill,
    var0,
    iso_cond,
    iso_tgt,
    z,
    err=0.0,
    unbiased=False,
    drift_cond=None,
    drift_tgt=None,
    exact=False,
    zero_tol=0.0,
):
    """Direct kriging.

    cov       : callable r -> covariance (without nugget)
    sill      : var + nugget
    var0      : covariance at zero lag used on the matrix diagonal (= var)
    iso_cond  : (d, n) isotropic coordinates of the conditioning points
    iso_tgt   : (d, m) isotropic coordinates of the targets
    z         : (n,) prepared (detrended, normalised, mean-free) data
    err       : scalar or (n,) measurement error variance added to the diagonal
    unbiased  : weights sum to one
    drift_*   : (k, n) / (k, m) drift function values (functional and external)
    exact     : zero-lag covariance on the right hand side is the sill
    zero_tol  : lags <= zero_tol count as zero lag for `exact`

    returns estimate (m,), error variance (m,) (clipped at 0), cond(A), raw variance
    """
    n = iso_cond.shape[1]
    m = iso_tgt.shape[1]
    C = np.asarray(cov(pairwise(iso_cond, iso_cond)), dtype=float)
    C = C + np.diag(np.broadcast_to(np.asarray(err, dtype=float), (n,)))
    rows = []
    rows_t = []
    if unbiased:
        rows.append(np.ones(n))
        rows_t.append(np.ones(m))
    if drift_cond is not None and len(drift_cond):
        for fc, ft in zip(np.atleast_2d(drift_cond), np.atleast_2d(drift_tgt)):
            rows.append(np.asarray(fc, dtype=float))
            rows_t.append(np.asarray(ft, dtype=float))
    k = len(rows)
    A = np.zeros((n + k, n + k))
    A[:n, :n] = C
    for i, r in enumerate(rows):
        A[n + i, :n] = r
        A[:n, n + i] = r
    d = pairwise(iso_cond, iso_tgt)
    c0 = np.asarray(cov(d), dtype=float)
    if exact:
        c0 = np.where(d <= zero_tol, sill, c0)
    B = np.zeros((n + k, m))
    B[:n] = c0
    for i, r in enumerate(rows_t):
        B[n + i] = r
    X, cnd = solve_system(A, B)
    zz = np.concatenate([np.asarray(z, dtype=float), np.zeros(k)])
    est = zz @ X
    raw_var = sill - np.sum(B * X, axis=0)
    return est, np.maximum(raw_var, 0.0), cnd, raw_var


def gls_mean(cov, iso_cond, z, err=0.0):
    """Generalised least squares mean (ordinary kriging of the mean)."""
    n = iso_cond.shape[1]
    C = np.asarray(cov(pairwise(iso_cond, iso_cond)), dtype=float)
    C = C + np.diag(np.broadcast_to(np.asarray(err, dtype=float), (n,)))
    one = np.ones(n)
    w = np.linalg.solve(C, one)
    return float(w @ np.asarray(z, dtype=float) / (w @ one))


def iso_positions(model_spec, pos):
    """Isotropic coordinates for a (Euclidean) model spec via the independent geometry."""
    dim = model_spec["dim"]
    return geo.isometrize(dim, model_spec.get("angles", [0.0]), model_spec.get("anis", [1.0]), pos)

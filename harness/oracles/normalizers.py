"""Independent reference for the GSTools normalizers (nothing here imports gstools).

Every shipped transformation is written as  T(x) = sigma * G(u; mu)  with the
Box-Cox kernel

    G(u; mu) = (u**mu - 1) / mu      (mu != 0),      G(u; 0) = log(u),   u > 0

taken from the class documentation:

    LogNormal    u = x            mu = 0       x > 0
    BoxCox       u = x            mu = lmbda   x > 0
    BoxCoxShift  u = x + shift    mu = lmbda   x > -shift
    YeoJohnson   x >= 0: u = x+1, mu = lmbda;  x < 0: sigma=-1, u = 1-x, mu = 2-lmbda
    Modulus      sigma = sgn(x), u = |x|+1, mu = lmbda
    Manly        u = exp(x)       mu = lmbda

Exact values are computed with mpmath (50 digits) from the *double* inputs, so
range membership and closed forms are decided exactly.  The valid output range
is the image of the input range under T, derived here from the formula and
never read from the library.

Tolerances (floating point error of evaluating the documented formula in double
precision, K = 8 ulp-units of slack for vectorised libm kernels; observed
errors stay below 10 % of these budgets):

    forward   |dy| <= K eps (2 (p+1)/|mu| + p |ln u|),   p = u**mu
              (cancellation in u**mu - 1, division by mu, error of the exponent)
              mu = 0:  K eps (1 + |ln u|)
    inverse   u = (1 + mu y)**(1/mu), q = 1 + mu y:
              |du|/u <= K eps (1 + |ln q|/|mu| + (1 + |mu y|)/(|mu| q))
              mu = 0:  K eps (1 + |y|)
    limit switch: the library replaces 0 < |mu| <= 1e-8 by the mu = 0 formula
              (np.isclose); this is accepted as a documented approximation with
              budget |mu| ln(u)^2 max(1, p) (forward) and |mu| y^2 (inverse,
              relative): the first neglected term of the expansion in mu.
"""

import math

import mpmath

M = mpmath.mp.clone()
M.dps = 50

EPS = 2.0**-52
K = 8.0
SWITCH = 1e-8

FAMILIES = ["LogNormal", "BoxCox", "BoxCoxShift", "YeoJohnson", "Modulus", "Manly"]
INF = float("inf")


def _f(x):
    """mp number -> float without raising on overflow."""
    try:
        return float(x)
    except OverflowError:  # pragma: no cover
        return INF if x > 0 else -INF


def G(u, mu):
    if mu == 0:
        return M.log(u)
    return M.expm1(mu * M.log(u)) / mu


def dG(u, mu):
    return M.exp((mu - 1) * M.log(u))


def Ginv(y, mu):
    """Inverse of G(.; mu); requires 1 + mu*y > 0."""
    if mu == 0:
        return M.exp(y)
    return M.exp(M.log1p(mu * y) / mu)


def tolG(lnu, mu):
    """Absolute double-precision error budget of G(u; mu) (see module doc)."""
    lnu = float(lnu)
    mu = float(mu)
    L = abs(lnu)
    if mu == 0:
        return K * EPS * (1.0 + L)
    p = math.exp(min(mu * lnu, 700.0))
    if abs(mu) <= SWITCH:
        # inside the accepted limit switch the mu = 0 formula is evaluated: its rounding plus the truncation mu L^2 / 2 of the limit
        # (the cancellation 1 / |mu| of the literal power formula does not occur there)
        return K * EPS * (1.0 + L) * max(1.0, p) + abs(mu) * L * L * max(1.0, p)
    return K * EPS * (2.0 * (p + 1.0) / abs(mu) + p * L)


def relGinv(y, mu):
    """Relative double-precision error budget of u = Ginv(y; mu)."""
    if mu == 0:
        return K * EPS * (1.0 + abs(float(y)))
    q = 1 + M.mpf(mu) * M.mpf(y)
    if q <= 0:
        return INF
    qf = max(_f(q), 1e-320)
    muf = abs(float(mu))
    lnq = abs(_f(M.log(q)))
    if muf <= SWITCH:
        return K * EPS * (1.0 + abs(float(y))) + muf * float(y) ** 2
    return K * EPS * (1.0 + lnq / muf + (1.0 + abs(float(mu) * float(y))) / (muf * qf))


class Ref:
    """Exact reference of one normalizer with fixed (double) parameters."""

    def __init__(self, cls, lmbda=1.0, shift=0.0):
        if cls not in FAMILIES:
            raise ValueError(cls)
        self.cls = cls
        self.lf = 0.0 if cls == "LogNormal" else float(lmbda)
        self.sf = float(shift) if cls == "BoxCoxShift" else 0.0
        self.lam = M.mpf(self.lf)
        self.s = M.mpf(self.sf)

    # -- ranges (open intervals, exact) ------------------------------------
    @property
    def in_range(self):
        if self.cls in ("LogNormal", "BoxCox"):
            return (M.mpf(0), M.inf)
        if self.cls == "BoxCoxShift":
            return (-self.s, M.inf)
        return (-M.inf, M.inf)

    @property
    def out_range(self):
        lam = self.lam
        if self.cls in ("LogNormal", "BoxCox", "BoxCoxShift", "Manly"):
            if lam == 0:
                return (-M.inf, M.inf)
            return (-1 / lam, M.inf) if lam > 0 else (-M.inf, -1 / lam)
        if self.cls == "YeoJohnson":
            hi = M.inf if lam >= 0 else -1 / lam
            lo = -M.inf if lam <= 2 else -1 / (lam - 2)
            return (lo, hi)
        # Modulus
        if lam >= 0:
            return (-M.inf, M.inf)
        return (1 / lam, -1 / lam)

    def in_valid(self, x):
        lo, hi = self.in_range
        x = M.mpf(x)
        return bool(lo < x < hi)

    def out_valid(self, y):
        lo, hi = self.out_range
        y = M.mpf(y)
        return bool(lo < y < hi)

    # -- decomposition -----------------------------------------------------
    def _fwd_parts(self, x):
        """x (finite, in range) -> (sigma, ln u, mu, u)."""
        x = M.mpf(x)
        c = self.cls
        if c in ("LogNormal", "BoxCox"):
            return 1, M.log(x), self.lam, x
        if c == "BoxCoxShift":
            u = x + self.s
            return 1, M.log(u), self.lam, u
        if c == "YeoJohnson":
            if x >= 0:
                return 1, M.log1p(x), self.lam, 1 + x
            return -1, M.log1p(-x), 2 - self.lam, 1 - x
        if c == "Modulus":
            sg = 1 if x >= 0 else -1
            return sg, M.log1p(abs(x)), self.lam, 1 + abs(x)
        # Manly: u = exp(x)
        return 1, x, self.lam, M.exp(x)

    def _inv_parts(self, y):
        """y (finite, in exact output range) -> (sigma, |y| or y, mu)."""
        y = M.mpf(y)
        c = self.cls
        if c == "YeoJohnson":
            return (1, y, self.lam) if y >= 0 else (-1, -y, 2 - self.lam)
        if c == "Modulus":
            return (1, y, self.lam) if y >= 0 else (-1, -y, self.lam)
        return 1, y, self.lam

    # -- exact maps ----------------------------------------------------------
    def T(self, x):
        sg, lnu, mu, _u = self._fwd_parts(x)
        if mu == 0:
            return sg * lnu
        return sg * M.expm1(mu * lnu) / mu

    def dT(self, x):
        _sg, lnu, mu, _u = self._fwd_parts(x)
        if self.cls == "Manly":
            return M.exp(mu * lnu)
        return M.exp((mu - 1) * lnu)

    def D(self, y):
        sg, ya, mu = self._inv_parts(y)
        if mu == 0:
            lnu = ya
        else:
            lnu = M.log1p(mu * ya) / mu
        c = self.cls
        if c == "Manly":
            return lnu
        if c in ("YeoJohnson", "Modulus"):
            return sg * M.expm1(lnu)
        u = M.exp(lnu)
        return u - self.s if c == "BoxCoxShift" else u

    # -- limits for +-inf inputs ---------------------------------------------
    def T_limit(self, sign):
        lo, hi = self.out_range
        return hi if sign > 0 else lo

    def D_limit(self, sign):
        lo, hi = self.in_range
        return hi if sign > 0 else lo

    # -- error budgets -----------------------------------------------------------
    def tolT(self, x):
        """Absolute budget for a double evaluation of T at the double x."""
        _sg, lnu, mu, _u = self._fwd_parts(x)
        return tolG(_f(lnu), _f(mu))

    def tolD(self, y):
        """Absolute budget for a double evaluation of D at the double y."""
        sg, ya, mu = self._inv_parts(y)
        r = relGinv(_f(ya), _f(mu))
        if not math.isfinite(r):
            return INF
        x = self.D(y)
        c = self.cls
        if c == "Manly":
            return r + K * EPS * abs(_f(x))
        if c in ("YeoJohnson", "Modulus"):
            u = 1 + abs(x)
            return _f(u) * (r + K * EPS)
        if c == "BoxCoxShift":
            u = x + self.s
            return _f(u) * r + K * EPS * (_f(abs(u)) + abs(self.sf))
        return _f(x) * r

    def tol_roundtrip_x(self, x):
        """Budget for |D_lib(T_lib(x)) - x|: forward error mapped through D' = 1/T'
        plus the inverse evaluation budget at y = T(x)."""
        ty = self.tolT(x)
        d = _f(self.dT(x))
        y = _f(self.T(x))
        if d <= 0 or not math.isfinite(y) or not self.out_valid(y):
            return INF
        return ty / d + self.tolD(y)

    def tol_roundtrip_y(self, y):
        """Budget for |T_lib(D_lib(y)) - y|."""
        tx = self.tolD(y)
        if not math.isfinite(tx):
            return INF
        x = _f(self.D(y))
        if not math.isfinite(x) or not self.in_valid(x):
            return INF
        return tx * _f(self.dT(x)) + self.tolT(x)

    # -- likelihood ----------------------------------------------------------------
    def loglik(self, data):
        """Profile normal log-likelihood of the transformed sample (exact).

        -n/2 log(2 pi s2) - n/2 + sum log T'(x_i),  s2 = mean (T(x_i)-mean)^2
        Returns (loglik, kernel, s2, max|T|) as mp numbers; data must be valid.
        """
        n = len(data)
        t = [self.T(x) for x in data]
        m = sum(t) / n
        s2 = sum((v - m) ** 2 for v in t) / n
        jac = sum(M.log(self.dT(x)) for x in data)
        kern = -M.mpf(n) / 2 * M.log(s2) + jac
        ll = kern - M.mpf(n) / 2 * (M.log(2 * M.pi) + 1)
        return ll, kern, s2, max(abs(v) for v in t)


def loglik_float(cls, lmbda, shift, data):
    """Double precision profile log-likelihood (numpy-free, for grids)."""
    r = Ref(cls, lmbda, shift)
    return _f(r.loglik(data)[0])

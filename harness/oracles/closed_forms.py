"""Independent closed forms of the 17 shipped GSTools correlation models.

Nothing in here imports gstools, numpy special functions or scipy: every
formula is transcribed from the *class docstrings* (models.py / tpl_models.py)
and evaluated with mpmath at 30 significant digits (``besselk``, ``besselj``,
``hyp2f1``, ``expint``, ``acos``).  All inputs are converted exactly from
binary doubles, so the only rounding is the final conversion back to a double.

Conventions (documented in the CovModel docstring):

* ``h = rescale * r / len_scale`` is the non-dimensional lag, ``cor(h)`` the
  normalised correlation, ``correlation(r) = cor(h)``;
* the default rescale factor is 1 except for the Gaussian model
  (``sqrt(pi)/2``);
* truncated power law models with modes (TPLGaussian / TPLExponential /
  TPLStable): ``len_up = len_low + len_scale`` and both truncation lengths are
  divided by ``rescale``; the correlation is the documented superposition

      rho(r) = c * (lu^2H E_s((r/lu)^a) - ll^2H E_s((r/ll)^a)) / (lu^2H - ll^2H)

  with ``c = 2H/a``, ``s = 1 + 2H/a`` and ``a = 2`` (Gaussian modes), ``1``
  (Exponential modes) or ``alpha`` (Stable modes).
"""

import math

import mpmath as mp

DPS = 30

CLASSES = (
    "Gaussian",
    "Exponential",
    "Matern",
    "Integral",
    "Stable",
    "Rational",
    "Cubic",
    "Linear",
    "Circular",
    "Spherical",
    "HyperSpherical",
    "SuperSpherical",
    "JBessel",
    "TPLGaussian",
    "TPLExponential",
    "TPLStable",
    "TPLSimple",
)

COMPACT = (
    "Cubic",
    "Linear",
    "Circular",
    "Spherical",
    "HyperSpherical",
    "SuperSpherical",
    "TPLSimple",
)
TPL_MODES = ("TPLGaussian", "TPLExponential", "TPLStable")

MATERN_GAUSS_SWITCH = 20.0  # docstring: "If nu > 20, a gaussian model is used"


def default_rescale(cls):
    """Documented standard rescale factor ``s`` of a class (exact mpf)."""
    with mp.workdps(DPS):
        if cls == "Gaussian":
            return mp.sqrt(mp.pi) / 2
        return mp.mpf(1)


def default_opt(cls, dim):
    """Documented defaults of the optional arguments."""
    if cls == "Stable":
        return {"alpha": 1.5}
    if cls == "Matern":
        return {"nu": 1.0}
    if cls == "Integral":
        return {"nu": 1.0}
    if cls == "Rational":
        return {"alpha": 1.0}
    if cls == "SuperSpherical":
        return {"nu": (dim - 1) / 2}
    if cls == "JBessel":
        return {"nu": dim / 2}
    if cls == "TPLSimple":
        return {"nu": (dim + 1) / 2}
    if cls == "TPLGaussian":
        return {"hurst": 0.5, "len_low": 0.0}
    if cls == "TPLExponential":
        return {"hurst": 0.25, "len_low": 0.0}
    if cls == "TPLStable":
        return {"hurst": 0.5, "alpha": 1.5, "len_low": 0.0}
    return {}


def full_opt(cls, dim, opt):
    out = dict(default_opt(cls, dim))
    out.update(opt or {})
    return out


def support(cls):
    """Support of ``cor`` in units of h (1 for compact models, inf else)."""
    return 1.0 if cls in COMPACT else math.inf


def _expint(s, x):
    """Generalised exponential integral E_s(x), x >= 0, s > 1."""
    if x == 0:
        return 1 / (s - 1)
    return mp.expint(s, x)


def _tpl_mode(cls, opt):
    """(a, c, s) of a truncated power law with modes."""
    hurst = mp.mpf(opt["hurst"])
    if cls == "TPLGaussian":
        a = mp.mpf(2)
    elif cls == "TPLExponential":
        a = mp.mpf(1)
    else:
        a = mp.mpf(opt["alpha"])
    c = 2 * hurst / a
    return a, c, 1 + c, hurst


def cor_mp(cls, dim, opt, h):
    """Normalised correlation ``cor(h)`` (mpf in, mpf out) of a shipped class.

    For the TPL models with modes this is the ``len_low = 0`` form (the only
    one expressible in a single non-dimensional lag).
    """
    o = full_opt(cls, dim, opt)
    h = abs(mp.mpf(h))
    one = mp.mpf(1)
    if cls == "Gaussian":
        return mp.exp(-(h**2))
    if cls == "Exponential":
        return mp.exp(-h)
    if cls == "Stable":
        if h == 0:
            return one
        return mp.exp(-(h ** mp.mpf(o["alpha"])))
    if cls == "Matern":
        nu = mp.mpf(o["nu"])
        if o["nu"] > MATERN_GAUSS_SWITCH:
            return mp.exp(-((h / 2) ** 2))
        if h == 0:
            return one
        x = mp.sqrt(nu) * h
        return 2 ** (1 - nu) / mp.gamma(nu) * x**nu * mp.besselk(nu, x)
    if cls == "Integral":
        nu = mp.mpf(o["nu"])
        return nu / 2 * _expint(1 + nu / 2, h**2)
    if cls == "Rational":
        al = mp.mpf(o["alpha"])
        return (1 + h**2 / al) ** (-al)
    if cls == "Cubic":
        if h >= 1:
            return mp.mpf(0)
        return (
            1
            - 7 * h**2
            + mp.mpf(35) / 4 * h**3
            - mp.mpf(7) / 2 * h**5
            + mp.mpf(3) / 4 * h**7
        )
    if cls == "Linear":
        return mp.mpf(0) if h >= 1 else 1 - h
    if cls == "Circular":
        if h >= 1:
            return mp.mpf(0)
        return 2 / mp.pi * (mp.acos(h) - h * mp.sqrt(1 - h**2))
    if cls == "Spherical":
        if h >= 1:
            return mp.mpf(0)
        return 1 - mp.mpf(3) / 2 * h + h**3 / 2
    if cls in ("HyperSpherical", "SuperSpherical"):
        if h >= 1:
            return mp.mpf(0)
        nu = mp.mpf(dim - 1) / 2 if cls == "HyperSpherical" else mp.mpf(o["nu"])
        half, th = mp.mpf(1) / 2, mp.mpf(3) / 2
        return 1 - h * mp.hyp2f1(half, -nu, th, h**2) / mp.hyp2f1(half, -nu, th, 1)
    if cls == "JBessel":
        nu = mp.mpf(o["nu"])
        if h == 0:
            return one
        return mp.gamma(nu + 1) * mp.besselj(nu, h) / (h / 2) ** nu
    if cls in TPL_MODES:
        a, c, s, _ = _tpl_mode(cls, o)
        if h == 0:
            return one
        return c * _expint(s, h**a)
    if cls == "TPLSimple":
        if h >= 1:
            return mp.mpf(0)
        return (1 - h) ** mp.mpf(o["nu"])
    raise ValueError(f"unknown class {cls}")


def rescale_mp(cls, rescale):
    return default_rescale(cls) if rescale is None else abs(mp.mpf(rescale))


def correlation_mp(cls, dim, len_scale, rescale, opt, r):
    """Documented correlation rho(r) of a model (mpf)."""
    o = full_opt(cls, dim, opt)
    s = rescale_mp(cls, rescale)
    r = abs(mp.mpf(r))
    ls = mp.mpf(len_scale)
    if cls in TPL_MODES and o.get("len_low", 0.0) > 0.0:
        a, c, es, hurst = _tpl_mode(cls, o)
        ll = mp.mpf(o["len_low"]) / s
        lu = (mp.mpf(o["len_low"]) + ls) / s
        if r == 0:
            return mp.mpf(1)
        fu, fl = lu ** (2 * hurst), ll ** (2 * hurst)
        return c * (fu * _expint(es, (r / lu) ** a) - fl * _expint(es, (r / ll) ** a)) / (fu - fl)
    return cor_mp(cls, dim, o, s * r / ls)


def correlation(cls, dim, len_scale, rescale, opt, r):
    """Vector of documented correlations as python floats."""
    with mp.workdps(DPS):
        return [float(correlation_mp(cls, dim, len_scale, rescale, opt, float(x))) for x in r]


def cor(cls, dim, opt, h):
    with mp.workdps(DPS):
        return [float(cor_mp(cls, dim, opt, float(x))) for x in h]


def var_factor(cls, len_scale, rescale, opt, dim=3):
    """Documented sigma^2 / C of the TPL models with modes (1 otherwise)."""
    if cls not in TPL_MODES:
        return 1.0
    with mp.workdps(DPS):
        o = full_opt(cls, dim, opt)
        s = rescale_mp(cls, rescale)
        hurst = mp.mpf(o["hurst"])
        ll = mp.mpf(o["len_low"]) / s
        lu = (mp.mpf(o["len_low"]) + mp.mpf(len_scale)) / s
        return float((lu ** (2 * hurst) - ll ** (2 * hurst)) / (2 * hurst))


# ---------------------------------------------------------------------------
# integral scale: quadrature of the documented correlation


def integral_scale_finite(cls, dim, opt):
    """Is the integral of the documented correlation over [0, inf) finite?"""
    o = full_opt(cls, dim, opt)
    if cls == "Rational":
        return o["alpha"] > 0.5  # tail ~ r^(-2 alpha)
    if cls == "JBessel":
        return o["nu"] > -0.5  # tail ~ r^(-nu-1/2) cos(...)
    return True


def integral_scale(cls, dim, len_scale, rescale, opt, dps=DPS):
    """Integral of the documented correlation over [0, inf).

    Adaptive (tanh-sinh) quadrature, split at the support edge of compact
    models and at decade points for the others; the oscillatory JBessel tail
    goes through ``quadosc`` (period 2 pi in h); the algebraic tail of the
    Rational model is mapped to a smooth integrand on a finite interval
    (h = v^(-1/(2 alpha - 1))).  Returns ``(value, error_estimate)`` as floats.
    """
    o = full_opt(cls, dim, opt)
    with mp.workdps(dps):
        s = rescale_mp(cls, rescale)
        ls = mp.mpf(len_scale)
        unit = ls / s  # r = unit * h

        def f(r):
            return correlation_mp(cls, dim, len_scale, rescale, o, r)

        if cls in COMPACT:
            pts = [0, unit / 4, unit / 2, 3 * unit / 4, unit]
            val, err = mp.quad(f, pts, error=True)
            return float(val), float(err)
        if cls == "JBessel":
            nu = mp.mpf(o["nu"])
            split = unit * (2 * mp.pi * (2 + mp.ceil(nu / 2)))
            v1, e1 = mp.quad(f, mp.linspace(0, split, 9), error=True)
            v2 = mp.quadosc(f, [split, mp.inf], period=2 * mp.pi * unit)
            return float(v1 + v2), float(e1) + 1e-12 * float(abs(v2))
        if cls == "Rational":
            al = mp.mpf(o["alpha"])
            v1, e1 = mp.quad(f, [0, unit / 10, unit, 10 * unit], error=True)
            # tail: h = v^(-k), k = 1/(2 alpha - 1): rho(h) dh = k (v^(2k) + 1/alpha)^(-alpha) dv
            k = 1 / (2 * al - 1)

            def g(v):
                return k * (v ** (2 * k) + 1 / al) ** (-al)

            vmax = mp.mpf(10) ** (-1 / k)
            v2, e2 = mp.quad(g, [0, vmax / 2, vmax], error=True)
            return float(v1 + unit * v2), float(e1 + unit * e2)
        scale = unit
        if cls in TPL_MODES and o.get("len_low", 0.0) > 0.0:
            scale = (mp.mpf(o["len_low"]) + ls) / s
        pts = [0, scale / 100, scale / 10, scale, 10 * scale, 100 * scale, mp.inf]
        val, err = mp.quad(f, pts, error=True)
        return float(val), float(err)


def integral_scale_analytic(cls, dim, len_scale, rescale, opt):
    """Textbook values of the integral where one exists (cross-check of the
    quadrature above; ``None`` otherwise)."""
    o = full_opt(cls, dim, opt)
    with mp.workdps(DPS):
        unit = mp.mpf(len_scale) / rescale_mp(cls, rescale)
        v = None
        if cls == "Gaussian":
            v = mp.sqrt(mp.pi) / 2
        elif cls == "Exponential":
            v = mp.mpf(1)
        elif cls == "Stable":
            v = mp.gamma(1 + 1 / mp.mpf(o["alpha"]))
        elif cls == "Rational":
            al = mp.mpf(o["alpha"])
            if o["alpha"] > 0.5:
                v = mp.sqrt(mp.pi * al) * mp.gamma(al - mp.mpf(1) / 2) / mp.gamma(al) / 2
        elif cls == "Linear":
            v = mp.mpf(1) / 2
        elif cls == "Spherical":
            v = mp.mpf(3) / 8
        elif cls == "Cubic":
            v = 1 - mp.mpf(7) / 3 + mp.mpf(35) / 16 - mp.mpf(7) / 12 + mp.mpf(3) / 32
        elif cls == "TPLSimple":
            v = 1 / (mp.mpf(o["nu"]) + 1)
        elif cls == "JBessel":
            nu = mp.mpf(o["nu"])
            if o["nu"] > -0.5:
                v = mp.sqrt(mp.pi) * mp.gamma(nu + 1) / mp.gamma(nu + mp.mpf(1) / 2)
        return None if v is None else float(v * unit)


# ---------------------------------------------------------------------------
# percentile scale: first lag where 1 - rho(r) reaches p


def first_crossing(cls, dim, len_scale, rescale, opt, per):
    """Smallest r > 0 with 1 - rho(r) = per (float) or None if never reached.

    Every shipped correlation except JBessel is a non-increasing function of
    the lag (positive mixtures of monotone modes, overlap volumes, completely
    monotone functions), so the crossing is unique: bracket by decades around
    h = 1, bisect in mpmath.  JBessel decreases from 1 to its first minimum at
    the first positive zero of J_{nu+1}; the first crossing exists iff
    1 - rho(minimum) >= per and lies in (0, minimum].
    """
    o = full_opt(cls, dim, opt)
    with mp.workdps(DPS):
        unit = mp.mpf(len_scale) / rescale_mp(cls, rescale)
        if cls in TPL_MODES and o.get("len_low", 0.0) > 0.0:
            unit = (mp.mpf(o["len_low"]) + mp.mpf(len_scale)) / rescale_mp(cls, rescale)
        per = mp.mpf(per)

        def g(r):
            return 1 - correlation_mp(cls, dim, len_scale, rescale, o, r) - per

        if cls == "JBessel":
            hi = mp.besseljzero(mp.mpf(o["nu"]) + 1, 1) * unit
            if g(hi) < 0:
                return None
            lo = mp.mpf(0)
        else:
            hi = unit
            n = 0
            while g(hi) < 0:
                hi *= 10
                n += 1
                if n > 40:
                    return None
            lo = hi / 10
            n = 0
            while g(lo) >= 0:
                hi = lo
                lo /= 10
                n += 1
                if n > 330:
                    lo = mp.mpf(0)
                    break
        for _ in range(110):
            mid = (lo + hi) / 2
            if g(mid) >= 0:
                hi = mid
            else:
                lo = mid
        return float(hi)

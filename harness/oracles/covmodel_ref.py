"""Pure-Python reference model of the documented CovModel parameter semantics.

No gstools import.  The state is a plain dict; every operation returns either
("ok", None) after updating the state or ("reject", reason) leaving the state
untouched.  Documented rules encoded here (CovModel docstring, set_len_anis,
set_anis, set_angles, set_model_angles docstrings):

* a list of length scales redefines the anisotropy ratios (too few values:
  the last one is repeated; too many: truncated); a scalar keeps the ratios;
* too few ratios: the *first* transversal axes get 1; too many: truncated;
* too few angles: filled with 0; too many: truncated;
* lat-lon models: dim = 3 (+1 with time), the two spatial ratios are 1,
  all angles 0, the time ratio (last) is kept;
* temporal models: rotation planes involving the time axis have angle 0;
* truncated power law models: var = var_raw * var_factor, var_raw (intensity)
  is kept when len_scale / rescale / hurst / len_low change;
* values outside (open / closed) bounds are rejected and leave the model as it was;
* set_arg_bounds(check_args=True) resets a now out-of-bounds value to the
  default derived from the bounds (mid point / lo+1 / hi-1).
"""

import copy
import math

INF = math.inf

TPL = ("TPLGaussian", "TPLExponential", "TPLStable")


def n_angles(dim):
    return dim * (dim - 1) // 2


def default_rescale(cls):
    return math.sqrt(math.pi) / 2.0 if cls == "Gaussian" else 1.0


def default_opt_bounds(cls, dim):
    if cls == "Stable":
        return {"alpha": [0.0, 2.0, "oc"]}
    if cls == "Matern":
        return {"nu": [0.2, 30.0, "cc"]}
    if cls == "Integral":
        return {"nu": [0.0, 50.0, "oc"]}
    if cls == "Rational":
        return {"alpha": [0.5, 50.0, "cc"]}
    if cls == "SuperSpherical":
        return {"nu": [(dim - 1) / 2, 50.0, "cc"]}
    if cls == "JBessel":
        return {"nu": [dim / 2 - 1, 50.0, "cc"]}
    if cls == "TPLSimple":
        return {"nu": [(dim + 1) / 2, 50.0, "cc"]}
    if cls in ("TPLGaussian", "TPLExponential"):
        return {"hurst": [0.1, 1.0, "oo"], "len_low": [0.0, INF, "co"]}
    if cls == "TPLStable":
        return {
            "hurst": [0.1, 1.0, "oo"],
            "alpha": [0.0, 2.0, "oc"],
            "len_low": [0.0, INF, "co"],
        }
    return {}


def default_opt(cls, dim):
    if cls == "Stable":
        return {"alpha": 1.5}
    if cls in ("Matern", "Integral"):
        return {"nu": 1.0}
    if cls == "Rational":
        return {"alpha": 1.0}
    if cls == "SuperSpherical":
        return {"nu": (dim - 1) / 2}
    if cls == "JBessel":
        return {"nu": dim / 2}
    if cls == "TPLSimple":
        return {"nu": (dim + 1) / 2}
    if cls == "TPLGaussian":
        return {"hurst": 0.5, "len_low": 0.0}
    if cls == "TPLExponential":
        return {"hurst": 0.25, "len_low": 0.0}
    if cls == "TPLStable":
        return {"hurst": 0.5, "alpha": 1.5, "len_low": 0.0}
    return {}


DIM_DEPENDENT = ("SuperSpherical", "JBessel", "TPLSimple")


def in_bounds(val, bnd):
    lo, hi = bnd[0], bnd[1]
    typ = bnd[2] if len(bnd) > 2 else "cc"
    vals = val if isinstance(val, (list, tuple)) else [val]
    for v in vals:
        if typ[0] == "c":
            if v < lo:
                return False
        elif v <= lo:
            return False
        if typ[1] == "c":
            if v > hi:
                return False
        elif v >= hi:
            return False
    return True


def valid_bounds(b):
    if len(b) not in (2, 3):
        return False
    if b[1] <= b[0]:
        return False
    if len(b) == 3 and b[2] not in ("oo", "oc", "co", "cc"):
        return False
    return True


def default_from_bounds(b):
    lo, hi = b[0], b[1]
    if lo > -INF and hi < INF:
        return (lo + hi) / 2.0
    if lo > -INF:
        return lo + 1.0
    if hi < INF:
        return hi - 1.0
    return 0.0


def _div(a, b):
    """IEEE division (x/0 = +-inf, 0/0 = nan) like numpy."""
    try:
        return a / b
    except ZeroDivisionError:
        if a == 0 or a != a:
            return math.nan
        return math.copysign(INF, a) * (math.copysign(1.0, b))


def pad_anis(dim, anis):
    a = list(anis) if isinstance(anis, (list, tuple)) else [anis]
    a = [float(x) for x in a][: max(dim - 1, 0)]
    return [1.0] * (dim - 1 - len(a)) + a


def pad_angles(dim, angles):
    a = list(angles) if isinstance(angles, (list, tuple)) else [angles]
    a = [float(x) for x in a][: n_angles(dim)]
    return a + [0.0] * (n_angles(dim) - len(a))


class RefModel:
    def __init__(self, cls, dim=3, latlon=False, temporal=False, geo_scale=1.0):
        self.cls = cls
        self.latlon = bool(latlon)
        self.temporal = bool(temporal)
        self.geo_scale = abs(float(geo_scale))
        self.dim = self._force_dim(dim)
        self.rescale = default_rescale(cls)
        self.len_scale = 1.0
        self.anis = [1.0] * (self.dim - 1)
        self.angles = [0.0] * n_angles(self.dim)
        self.nugget = 0.0
        self.opt = default_opt(cls, self.dim)
        self.bounds = {
            "var": [0.0, INF, "oo"],
            "len_scale": [0.0, INF, "oo"],
            "nugget": [0.0, INF, "co"],
            "anis": [0.0, INF, "oo"],
        }
        self.opt_bounds_custom = set()
        self.bounds.update(default_opt_bounds(cls, self.dim))
        self.hankel_kw = {"a": -1, "b": 1, "N": 200, "h": 0.001, "alt": True}
        self.var_raw = 1.0
        self.var_raw = 1.0 / self.var_factor()

    # -- derived -----------------------------------------------------------
    def _force_dim(self, dim):
        return 3 + int(self.temporal) if self.latlon else int(dim)

    def var_factor(self):
        if self.cls in TPL:
            h = self.opt["hurst"]
            up = (self.opt["len_low"] + self.len_scale) / self.rescale
            low = self.opt["len_low"] / self.rescale
            if low < 0 or up < 0 or h == 0:
                raise ValueError("var_factor undefined")
            return (up ** (2 * h) - low ** (2 * h)) / (2 * h)
        return 1.0

    @property
    def var(self):
        return self.var_raw * self.var_factor()

    @property
    def sill(self):
        return self.var + self.nugget

    @property
    def field_dim(self):
        return 2 + int(self.temporal) if self.latlon else self.dim

    @property
    def spatial_dim(self):
        return 2 if self.latlon else self.dim - int(self.temporal)

    @property
    def len_scale_vec(self):
        return [self.len_scale] + [self.len_scale * a for a in self.anis]

    def snapshot(self):
        return copy.deepcopy(self.__dict__)

    def restore(self, snap):
        self.__dict__.update(copy.deepcopy(snap))

    # -- consistency with bounds -----------------------------------------------
    def _check(self):
        for k, v in self.opt.items():
            if not in_bounds(v, self.bounds[k]):
                return k
        if not in_bounds(self.var, self.bounds["var"]):
            return "var"
        if not in_bounds(self.len_scale, self.bounds["len_scale"]):
            return "len_scale"
        if not in_bounds(self.nugget, self.bounds["nugget"]):
            return "nugget"
        if not in_bounds(self.anis, self.bounds["anis"]):
            return "anis"
        for k, v in self.opt.items():
            if not in_bounds(v, self.bounds[k]):
                return k
        return None

    def _try(self, fn):
        snap = self.snapshot()
        try:
            why = fn()
            if why is None:
                why = self._check()
        except (ValueError, ZeroDivisionError, OverflowError) as e:
            self.restore(snap)
            return ("reject", str(e))
        if why is not None:
            self.restore(snap)
            return ("reject", why)
        return ("ok", None)

    def _latlon_fix(self):
        if self.latlon:
            for i in range(min(2, len(self.anis))):
                self.anis[i] = 1.0
            self.angles = [0.0] * n_angles(self.dim)
        elif self.temporal:
            k = n_angles(self.dim - 1)
            self.angles = self.angles[:k] + [0.0] * (len(self.angles) - k)

    # -- operations ------------------------------------------------------------
    def set_var(self, v):
        def f():
            vf = self.var_factor()
            self.var_raw = float(v) / vf

        return self._try(f)

    def set_var_raw(self, v):
        def f():
            self.var_raw = float(v)

        return self._try(f)

    def set_nugget(self, v):
        def f():
            self.nugget = float(v)

        return self._try(f)

    def set_rescale(self, v):
        # rescale has no bounds of its own; the derived TPL variance is not an
        # assigned value, so nothing is checked here
        self.rescale = default_rescale(self.cls) if v is None else abs(float(v))
        return ("ok", None)

    def set_len_scale(self, v):
        def f():
            ls = [float(x) for x in v] if isinstance(v, (list, tuple)) else [float(v)]
            ls = ls[: self.dim]
            self.len_scale = ls[0]
            if len(ls) > 1:
                ls = ls + [ls[-1]] * (self.dim - len(ls))
                anis = [_div(x, ls[0]) for x in ls[1:]]
                if any(not a > 0.0 for a in anis):
                    return "anis"
                self.anis = anis
            self._latlon_fix()

        return self._try(f)

    def set_anis(self, v):
        def f():
            anis = pad_anis(self.dim, v)
            if any(not a > 0.0 for a in anis):
                return "anis"
            self.anis = anis
            self._latlon_fix()

        return self._try(f)

    def set_angles(self, v):
        def f():
            self.angles = pad_angles(self.dim, v)
            self._latlon_fix()

        return self._try(f)

    def set_opt(self, name, v):
        def f():
            self.opt[name] = float(v)

        return self._try(f)

    def set_dim(self, d):
        def f():
            d2 = self._force_dim(d)
            if d2 < 1:
                raise ValueError("dim")
            self.dim = d2
            self.anis = pad_anis(d2, self.anis)
            self.angles = pad_angles(d2, self.angles)
            self._latlon_fix()
            # dimension dependent bounds follow the dimension unless customised
            if self.cls in DIM_DEPENDENT:
                for k, b in default_opt_bounds(self.cls, d2).items():
                    if k not in self.opt_bounds_custom:
                        self.bounds[k] = b

        return self._try(f)

    def set_bounds(self, name, b, check_args=True):
        if not valid_bounds(b):
            return ("reject", "bounds")

        def f():
            self.bounds[name] = list(b)
            if name in self.opt:
                self.opt_bounds_custom.add(name)
            if check_args:
                cur = {
                    "var": self.var,
                    "len_scale": self.len_scale,
                    "nugget": self.nugget,
                    "anis": self.anis,
                }.get(name, self.opt.get(name))
                if not in_bounds(cur, b):
                    dv = default_from_bounds(b)
                    if name == "var":
                        self.var_raw = dv / self.var_factor()
                    elif name == "len_scale":
                        self.len_scale = dv
                    elif name == "nugget":
                        self.nugget = dv
                    elif name == "anis":
                        self.anis = [dv] * (self.dim - 1)
                        self._latlon_fix()
                    else:
                        self.opt[name] = dv
            else:
                return "skipcheck"

        snap = self.snapshot()
        cur0 = {
            "var": self.var,
            "len_scale": self.len_scale,
            "nugget": self.nugget,
            "anis": self.anis,
        }.get(name, self.opt.get(name))
        was_in = in_bounds(cur0, b)
        why = f()
        if why == "skipcheck" or was_in:
            # only the named argument is looked at when it already fits
            return ("ok", None)
        bad = self._check()
        if bad is not None:
            # the library would raise from the setter; state then is the library's business
            self.restore(snap)
            return ("reject", bad)
        return ("ok", None)

    def set_hankel_kw(self, kw):
        if kw is None:
            self.hankel_kw = {"a": -1, "b": 1, "N": 200, "h": 0.001, "alt": True}
        else:
            self.hankel_kw.update(kw)
        return ("ok", None)

"""Independent geometry: rotations, anisotropy, sphere.

Nothing in here imports gstools.  Conventions are taken from the documentation:
2-D counter-clockwise rotation about z; 3-D yaw, pitch, roll (Tait-Bryan);
n-D: successive plane rotations in the planes xy, xz, yz, xv, yv, zv, ... with
alternating sign, each applied after (left of) the previous ones.
"""

import math

import numpy as np
from scipy.linalg import expm


def n_angles(dim):
    return dim * (dim - 1) // 2


def pad_angles(dim, angles):
    a = list(np.atleast_1d(np.asarray(angles, dtype=float)))[: n_angles(dim)]
    return np.array(a + [0.0] * (n_angles(dim) - len(a)), dtype=float)


def pad_anis(dim, anis):
    """Too few ratios: the *first* transversal axes get 1 (anis=[e] in 3D -> [1, e])."""
    a = list(np.atleast_1d(np.asarray(anis, dtype=float)))[: dim - 1]
    return np.array([1.0] * (dim - 1 - len(a)) + a, dtype=float)


def rot2(alpha):
    c, s = math.cos(alpha), math.sin(alpha)
    return np.array([[c, -s], [s, c]])


def rot3(yaw, pitch, roll):
    """R = Rx(roll) * Ry(pitch) * Rz(yaw), written out element-wise."""
    ca, sa = math.cos(yaw), math.sin(yaw)
    cb, sb = math.cos(pitch), math.sin(pitch)
    cg, sg = math.cos(roll), math.sin(roll)
    return np.array(
        [
            [cb * ca, -cb * sa, sb],
            [cg * sa + sg * sb * ca, cg * ca - sg * sb * sa, -sg * cb],
            [sg * sa - cg * sb * ca, sg * ca + cg * sb * sa, cg * cb],
        ]
    )


def rot_nd(dim, angles):
    """General n-D rotation by matrix exponentials of plane generators."""
    angles = pad_angles(dim, angles)
    planes = []
    for j in range(1, dim):
        for i in range(j):
            planes.append((i, j))
    R = np.eye(dim)
    for idx, ((i, j), ang) in enumerate(zip(planes, angles)):
        gen = np.zeros((dim, dim))
        gen[j, i] = 1.0
        gen[i, j] = -1.0
        sign = 1.0 if idx % 2 == 0 else -1.0
        R = expm(sign * ang * gen) @ R
    return R


def rotation(dim, angles):
    angles = pad_angles(dim, angles)
    if dim == 1:
        return np.eye(1)
    if dim == 2:
        return rot2(angles[0])
    if dim == 3:
        return rot3(*angles)
    return rot_nd(dim, angles)


def iso_matrix(dim, angles, anis):
    """x_iso = S^-1 R^T x."""
    anis = pad_anis(dim, anis)
    R = rotation(dim, angles)
    S_inv = np.diag(np.concatenate(([1.0], 1.0 / anis)))
    return S_inv @ R.T


def aniso_matrix(dim, angles, anis):
    anis = pad_anis(dim, anis)
    R = rotation(dim, angles)
    S = np.diag(np.concatenate(([1.0], anis)))
    return R @ S


def isometrize(dim, angles, anis, pos):
    pos = np.asarray(pos, dtype=float).reshape(dim, -1)
    return iso_matrix(dim, angles, anis) @ pos


# ---------------------------------------------------------------------------
# sphere


def latlon_to_unit(lat, lon):
    lat = np.radians(np.asarray(lat, dtype=float))
    lon = np.radians(np.asarray(lon, dtype=float))
    return np.array(
        [np.cos(lat) * np.cos(lon), np.cos(lat) * np.sin(lon), np.sin(lat)]
    )


def great_circle(lat1, lon1, lat2, lon2):
    """Central angle via atan2(|a x b|, a.b) on unit vectors (radians)."""
    a = latlon_to_unit(lat1, lon1)
    b = latlon_to_unit(lat2, lon2)
    cr = np.cross(a, b, axis=0)
    return np.arctan2(np.linalg.norm(cr, axis=0), np.sum(a * b, axis=0))


def great_circle_matrix(lat, lon):
    u = latlon_to_unit(lat, lon)  # (3, n)
    n = u.shape[1]
    out = np.zeros((n, n))
    for i in range(n):
        a = u[:, i : i + 1]
        cr = np.cross(np.repeat(a, n, axis=1), u, axis=0)
        out[i] = np.arctan2(np.linalg.norm(cr, axis=0), np.sum(a * u, axis=0))
    return out


def chord_from_arc(arc_rad):
    """Chordal distance on the unit sphere for a central angle."""
    return 2.0 * np.sin(np.asarray(arc_rad) / 2.0)


def random_rotation3(q):
    """Rotation matrix from a (non-normalised) quaternion (w, x, y, z)."""
    q = np.asarray(q, dtype=float)
    q = q / np.linalg.norm(q)
    w, x, y, z = q
    return np.array(
        [
            [1 - 2 * (y * y + z * z), 2 * (x * y - z * w), 2 * (x * z + y * w)],
            [2 * (x * y + z * w), 1 - 2 * (x * x + z * z), 2 * (y * z - x * w)],
            [2 * (x * z - y * w), 2 * (y * z + x * w), 1 - 2 * (x * x + y * y)],
        ]
    )


def unit_to_latlon(u):
    u = np.asarray(u, dtype=float)
    lat = np.degrees(np.arcsin(np.clip(u[2], -1.0, 1.0)))
    lon = np.degrees(np.arctan2(u[1], u[0]))
    return lat, lon


# --- additions for C13 (nothing above is changed) ---------------------------


def unit_to_latlon_atan2(u):
    """Inverse of latlon_to_unit that stays well conditioned near the poles.

    lat = atan2(z, hypot(x, y)) keeps full relative precision of the co-latitude
    (arcsin(z) loses half of the digits when |z| -> 1).  lon in [-180, 180].
    """
    u = np.asarray(u, dtype=float)
    lat = np.degrees(np.arctan2(u[2], np.hypot(u[0], u[1])))
    lon = np.degrees(np.arctan2(u[1], u[0]))
    return lat, lon


def arc_from_chord(chord):
    """Central angle (radians) of a chord of the unit sphere, chords > 2 clipped."""
    half = np.clip(np.asarray(chord, dtype=float) / 2.0, 0.0, 1.0)
    return 2.0 * np.arctan2(half, np.sqrt((1.0 - half) * (1.0 + half)))


def rot_pole_to(lat0, lon0):
    """Rotation taking the north pole (0, 0, 1) to the point (lat0, lon0) [deg]."""
    b = math.radians(90.0 - lat0)
    a = math.radians(lon0)
    ry = np.array(
        [[math.cos(b), 0.0, math.sin(b)], [0.0, 1.0, 0.0], [-math.sin(b), 0.0, math.cos(b)]]
    )
    rz = np.array(
        [[math.cos(a), -math.sin(a), 0.0], [math.sin(a), math.cos(a), 0.0], [0.0, 0.0, 1.0]]
    )
    return rz @ ry


def cap_points(lat0, lon0, colat, azim):
    """Unit vectors at angular distance ``colat`` (rad) and azimuth ``azim`` (rad)
    from the centre (lat0, lon0) [deg]; shape (3, n)."""
    colat = np.asarray(colat, dtype=float)
    azim = np.asarray(azim, dtype=float)
    u = np.array(
        [np.sin(colat) * np.cos(azim), np.sin(colat) * np.sin(azim), np.cos(colat)]
    )
    return rot_pole_to(lat0, lon0) @ u


def sphere_cross_dist(u, v):
    """Matrix of central angles between the columns of u (3, n) and v (3, m)."""
    u = np.asarray(u, dtype=float)
    v = np.asarray(v, dtype=float)
    out = np.zeros((u.shape[1], v.shape[1]))
    for i in range(u.shape[1]):
        a = np.repeat(u[:, i : i + 1], v.shape[1], axis=1)
        cr = np.cross(a, v, axis=0)
        out[i] = np.arctan2(np.linalg.norm(cr, axis=0), np.sum(a * v, axis=0))
    return out

"""Independent radial Fourier transform of an isotropic correlation function.

Nothing in here imports gstools.  For a radial function rho on R^d

    S_d(k) = (2 pi)^(-d/2) k^(1-d/2) int_0^inf r^(d/2) rho(r) J_(d/2-1)(k r) dr
           = c_d * int_0^inf r^(d-1) rho(r) Lambda_d(k r) dr ,        c_d > 0,

with the normalised Bessel kernel

    Lambda_d(x) = Gamma(d/2) (2/x)^(d/2-1) J_(d/2-1)(x),   Lambda_d(0) = 1
    (d=1: cos x, d=2: J0(x), d=3: sin(x)/x, d=4: 2 J1(x)/x).

Only the *sign* and the ratio S_d(k)/S_d(0) are needed, so c_d is dropped and
everything is done in the non-dimensional variable h = r / L.

Quadrature: composite Gauss-Legendre (``order`` nodes per panel) on panels of
width <= ``width``.  With width * kappa_max <= pi / 2 ... pi every panel holds
at most half an oscillation of the kernel (the effect of splitting at the
Bessel zeros, but with one kappa independent node set, so that rho is
evaluated once and the transform is a matrix-vector product).  End points where
rho is not analytic (h = 0: |h|^alpha cusps; h = 1: (1-h)^beta edges of the
compact-support models) are resolved by geometric grading: the panel touching
such a point is split into ``levels`` sub-panels shrinking by ``ratio``.  On a
graded sub-panel the singularity sits at relative distance ratio/(1-ratio)
of the panel width, i.e. outside the Bernstein ellipse rho_B = x0 +
sqrt(x0^2-1), x0 = 1 + 2 ratio/(1-ratio) (= 2.26 for ratio 0.15): the n-point
rule converges like rho_B^(-2n) = 5e-12 (n=16) relative to the panel
contribution, and the innermost panel of width ratio^levels*width (1e-12 *
width for 15 levels) contributes less than its width.  The self-test
(:func:`selftest`) compares against closed forms and is run by the check.
"""

import math

import numpy as np
from scipy import special as sps

_GL_CACHE = {}


def _gl(order):
    if order not in _GL_CACHE:
        _GL_CACHE[order] = np.polynomial.legendre.leggauss(order)
    return _GL_CACHE[order]


def breakpoints(upper, width, grade_lo=True, grade_hi=False, ratio=0.15, levels=15):
    """Panel boundaries on [0, upper], graded towards 0 and / or ``upper``."""
    n = max(2, int(math.ceil(upper / width)))
    b = np.linspace(0.0, upper, n + 1)
    w = upper / n
    parts = [b]
    g = w * ratio ** np.arange(1, levels + 1)
    if grade_lo:
        parts.append(g)
    if grade_hi:
        parts.append(upper - g)
    return np.unique(np.concatenate(parts))


def rule(breaks, order=16):
    """Composite Gauss-Legendre nodes and weights for the given panels."""
    x, w = _gl(order)
    a = breaks[:-1][:, None]
    b = breaks[1:][:, None]
    half = 0.5 * (b - a)
    nodes = (a + half * (x[None, :] + 1.0)).ravel()
    weights = (half * w[None, :]).ravel()
    return nodes, weights


def kernel(d, x):
    """Normalised Bessel kernel Lambda_d(x) (see module docstring)."""
    x = np.asarray(x, dtype=float)
    if d == 1:
        return np.cos(x)
    if d == 3:
        return np.sinc(x / math.pi)
    nu = d / 2.0 - 1.0
    out = np.ones_like(x)
    small = np.abs(x) < 1e-4
    xs = x[~small]
    if d == 2:
        out[~small] = sps.j0(xs)
    elif d == 4:
        out[~small] = 2.0 * sps.j1(xs) / xs
    else:
        out[~small] = sps.gamma(nu + 1.0) * (2.0 / xs) ** nu * sps.jv(nu, xs)
    # series 1 - x^2/(4(nu+1)) + ... (error < 1e-17 below 1e-4)
    out[small] = 1.0 - x[small] ** 2 / (4.0 * (nu + 1.0))
    return out


def transform(d, nodes, weights, rho, kappas, chunk=64):
    """S(kappa) = sum_i w_i h_i^(d-1) rho_i Lambda_d(kappa h_i) for each kappa."""
    kappas = np.asarray(kappas, dtype=float)
    f = weights * nodes ** (d - 1) * rho
    out = np.empty(kappas.shape, dtype=float)
    for i in range(0, len(kappas), chunk):
        kk = kappas[i : i + chunk]
        out[i : i + chunk] = kernel(d, kk[:, None] * nodes[None, :]) @ f
    return out


def scan(rho_fn, d, kappas, upper, compact, damp=0.0, order=16):
    """Radial spectrum of ``rho_fn(h) * exp(-(damp h)^2)`` on the wave numbers ``kappas``.

    ``rho_fn`` takes non-dimensional lags h in [0, upper]; ``compact`` says that
    rho vanishes beyond ``upper`` and may have an algebraic edge there.
    Returns a dict: ``s`` (un-normalised S(kappa)), ``s0`` = S(0), ``s_abs`` =
    int h^(d-1) |rho| damping dh (>= |S(kappa)| for every kappa; equals S(0)
    when rho >= 0), ``rho`` (undamped values at the nodes), ``h`` (nodes).
    """
    kmax = float(np.max(kappas)) if len(kappas) else 1.0
    width = min(upper / 16.0, 2.4 / max(kmax, 1e-9))
    br = breakpoints(upper, width, grade_lo=True, grade_hi=compact)
    h, w = rule(br, order)
    rho = np.asarray(rho_fn(h), dtype=float)
    rd = rho * np.exp(-((damp * h) ** 2)) if damp > 0.0 else rho
    vol = w * h ** (d - 1)
    return {
        "s": transform(d, h, w, rd, kappas),
        "s0": float(np.sum(vol * rd)),
        "s_abs": float(np.sum(vol * np.abs(rd))),
        "rho": rho,
        "h": h,
    }


# ---------------------------------------------------------------------------
# closed forms used for the accuracy self-test (written from the literature,
# not from gstools)


def _closed_forms():
    def linear(h):
        return np.maximum(1.0 - h, 0.0)

    def linear_s1(k):  # int_0^1 (1-h) cos(kh) dh
        return (1.0 - np.cos(k)) / k**2

    def spherical(h):
        h = np.minimum(h, 1.0)
        return 1.0 - 1.5 * h + 0.5 * h**3

    def spherical_s3(k):
        # auto-convolution of the ball of diameter 1: S ~ (J_{3/2}(k/2))^2 / k^3
        return sps.jv(1.5, k / 2.0) ** 2 / k**3

    def askey(nu):
        return lambda h: np.maximum(1.0 - h, 0.0) ** nu

    def expo(h):
        return np.exp(-h)

    def expo_s(d):
        return lambda k: (1.0 + k**2) ** (-(d + 1) / 2.0)

    def gauss_damped_s(d, damp):
        # exp(-h^2) exp(-(damp h)^2): Gaussian with 1/a^2 = 1 + damp^2
        a2 = 1.0 + damp**2
        return lambda k: np.exp(-(k**2) / (4.0 * a2))

    return linear, linear_s1, spherical, spherical_s3, askey, expo, expo_s, gauss_damped_s


def selftest():
    """Max relative-to-S(0) error against closed forms; returns dict name -> err."""
    linear, linear_s1, spherical, spherical_s3, askey, expo, expo_s, gds = _closed_forms()
    out = {}
    kap = np.concatenate((np.linspace(0.05, 60.0, 240), [2 * math.pi, 4 * math.pi, 200.0]))
    def rel(*a, **k):
        r = scan(*a, **k)
        return r["s"] / r["s0"]

    s = rel(linear, 1, kap, 1.0, True)
    out["linear_1d"] = float(np.max(np.abs(s - linear_s1(kap) / 0.5)))
    s = rel(spherical, 3, kap, 1.0, True)
    ref = spherical_s3(kap)
    lim = (1.0 / 4.0) ** 3 / sps.gamma(2.5) ** 2  # k -> 0 of J_{3/2}(k/2)^2/k^3
    out["spherical_3d"] = float(np.max(np.abs(s - ref / lim)))
    # Askey function (1-h)^2 in d=3: int_0^1 h^2 (1-h)^2 sin(kh)/(kh) dh in closed form
    k = kap
    ref = (2.0 * k * (2.0 + np.cos(k)) - 6.0 * np.sin(k)) / k**5
    s = rel(askey(2.0), 3, kap, 1.0, True)
    big = kap >= 3.0  # the closed form itself cancels like eps/k^5 for small k
    out["askey2_3d"] = float(np.max(np.abs(s - ref / (1.0 / 30.0))[big]))
    for d in (1, 2, 3, 4):
        s = rel(expo, d, kap[kap <= 30.0], 40.0, False)
        out[f"exponential_{d}d"] = float(np.max(np.abs(s - expo_s(d)(kap[kap <= 30.0]))))
        s = rel(lambda h: np.exp(-(h**2)), d, kap[kap <= 10.0], 9.0, False, damp=0.3)
        out[f"gauss_damped_{d}d"] = float(np.max(np.abs(s - gds(d, 0.3)(kap[kap <= 10.0]))))
    return out

"""Independent quadrature for the spectral checks (C04).

Nothing in here imports gstools.  Convention (documented in CovModel.spectrum):

    S(k) = (2 pi)^-d  int C(r) exp(i k.r) d^d r ,   spectral_density = S / var

Three tools

* composite Gauss-Legendre rules on *fixed* panels for the two sides of the
  Gaussian-weighted Parseval identity

      int S(k) exp(-a k^2) d^d k = (4 pi a)^(-d/2) int rho(r) exp(-r^2/(4a)) d^d r

  (both sides smooth, absolutely convergent radial integrals; the left side is
  the Laplace transform of the radial spectral measure in k^2, so the family
  over ``a`` determines S),
* a Gauss-Jacobi rule for a spectrum with an algebraic end point singularity
  on a compact support (J-Bessel),
* pointwise radial Fourier transforms: QUADPACK Fourier weights in d = 1, 3 and
  integration between consecutive zeros of J0 with Wynn's epsilon algorithm
  in d = 2.
"""

import functools
import math

import numpy as np
from scipy import integrate, special


def sphere_fac(dim):
    """Surface of the unit sphere S^(d-1): 2, 2 pi, 4 pi (re-derived, not rad_fac)."""
    return 2.0 * math.pi ** (dim / 2.0) / math.gamma(dim / 2.0)


def rad_weight(dim, r):
    """Radial volume element A_d r^(d-1) written out for d = 1, 2, 3."""
    r = np.asarray(r, dtype=float)
    if dim == 1:
        return np.full_like(r, 2.0)
    if dim == 2:
        return 2.0 * math.pi * r
    if dim == 3:
        return 4.0 * math.pi * r * r
    return sphere_fac(dim) * r ** (dim - 1)


@functools.lru_cache(maxsize=None)
def _gl(n):
    x, w = np.polynomial.legendre.leggauss(n)
    return x, w


def composite_gl(breaks, n=16):
    """Nodes and weights of the n-point Gauss-Legendre rule on every panel."""
    b = np.unique(np.asarray(breaks, dtype=float))
    lo, hi = b[:-1], b[1:]
    keep = hi > lo
    lo, hi = lo[keep], hi[keep]
    x, w = _gl(n)
    mid = 0.5 * (lo + hi)[:, None]
    half = 0.5 * (hi - lo)[:, None]
    return (mid + half * x[None, :]).ravel(), (half * w[None, :]).ravel()


def dyadic(hi, levels):
    """0 and hi * 2^-j, j = 0..levels (geometric grading towards the origin)."""
    return np.concatenate(([0.0], hi * 0.5 ** np.arange(levels, -1, -1)))


def graded_to(point, width, levels):
    """point - width * 2^-j, j = 0..levels (grading towards ``point`` from the left)."""
    return point - width * 0.5 ** np.arange(0, levels + 1)


T_CUT = 6.6  # exp(-T_CUT^2) = 1.2e-19: the Gaussian weight is cut below rounding


def k_rule(a, scale, n=16, osc_step=3.0, floor=0.02):
    """Rule for int_0^inf f(k) exp(-a k^2) dk-type integrals.

    Panels: dyadic from the cut-off down to floor/scale (a spectral density is
    smooth at the origin on the scale 1/scale; on a panel [c, 2c] it is analytic
    whatever power law it follows) united with uniform panels of width
    osc_step/scale (resolves the oscillation of spectra of compactly supported
    correlations, period 2 pi / scale).
    """
    kmax = T_CUT / math.sqrt(a)
    levels = max(0, int(math.ceil(math.log2(kmax * scale / floor))))
    br = [dyadic(kmax, levels)]
    step = osc_step / scale
    if step < kmax:
        br.append(np.arange(1, int(kmax / step) + 1) * step)
    b = np.concatenate(br)
    return composite_gl(b[b <= kmax], n)


def r_rule(a, scale, n=16, osc_step=3.0, levels=20, support=None, extra=()):
    """Rule for int_0^inf f(r) exp(-r^2/(4a)) dr-type integrals.

    Dyadic towards r = 0 (correlations behave like 1 - c r^beta there), uniform
    panels of width osc_step*scale (hole-effect correlations), and - for a
    compactly supported correlation - a break at the support radius with
    grading towards it (square-root type behaviour of the circular model).
    """
    rmax = 2.0 * math.sqrt(a) * T_CUT
    if support is not None:
        rmax = min(rmax, support)
    br = [dyadic(rmax, levels)]
    step = osc_step * scale
    if step < rmax:
        br.append(np.arange(1, int(rmax / step) + 1) * step)
    if support is not None and rmax >= support:
        br.append(graded_to(support, 0.5 * support, 24))
    for e in extra:
        if 0 < e < rmax:
            br.append(graded_to(e, 0.5 * e, 12))
            br.append(2 * e - graded_to(e, 0.5 * e, 12))
    b = np.concatenate(br)
    b = b[(b >= 0) & (b <= rmax)]
    return composite_gl(b, n)


def jacobi_rule(kmax, p, n=96):
    """Gauss-Jacobi rule for int_0^kmax g(k) (1 - k/kmax)^p dk, p > -1.

    Returns nodes k_i, weights w_i such that the integral is
    sum_i w_i g(k_i); the caller divides its integrand by (1 - k/kmax)^p.
    Also returned: t_i = 1 - k_i/kmax computed without cancellation.
    """
    x, w = special.roots_jacobi(n, p, 0.0)
    # x in (-1, 1), weight (1-x)^p ; k = kmax (1+x)/2 ; 1 - k/kmax = (1-x)/2
    t = 0.5 * (1.0 - x)
    k = kmax * 0.5 * (1.0 + x)
    wk = w * kmax * 0.5 / 2.0**p
    return k, wk, t


def gauss_side_rhs(dim, a, r, w, rho):
    """(4 pi a)^(-d/2) int rho(r) exp(-r^2/4a) d^d r from nodes/weights/values."""
    g = np.exp(-(r * r) / (4.0 * a))
    return float(np.sum(w * rad_weight(dim, r) * g * rho)) / (4.0 * math.pi * a) ** (dim / 2.0)


def gauss_side_lhs(dim, a, k, w, dens):
    """int S(k) exp(-a k^2) d^d k from nodes/weights/values."""
    return float(np.sum(w * rad_weight(dim, k) * np.exp(-a * k * k) * dens))


# ---------------------------------------------------------------------------
# pointwise radial Fourier transforms


def _quad(f, lo, hi, **kw):
    val, err = integrate.quad(f, lo, hi, limit=400, epsabs=0.0, epsrel=1e-12, **kw)
    return val, err


def ft_1d(rho, k, support=None, breaks=()):
    """S(k) = 1/pi int_0^inf rho(r) cos(k r) dr, returns (value, error estimate)."""
    hi = support if support is not None else np.inf
    pts = sorted(b for b in breaks if 0 < b < (hi if np.isfinite(hi) else 1e300))
    if k == 0.0:
        if np.isfinite(hi):
            v, e = integrate.quad(rho, 0, hi, limit=400, epsabs=0, epsrel=1e-12, points=pts or None)
        else:
            v, e = integrate.quad(rho, 0, np.inf, limit=400, epsabs=0, epsrel=1e-12)
        return v / math.pi, e / math.pi
    if np.isfinite(hi):
        v, e = integrate.quad(rho, 0, hi, weight="cos", wvar=k, limit=400, epsabs=0, epsrel=1e-12)
    else:
        v, e = integrate.quad(rho, 0, np.inf, weight="cos", wvar=k, limit=400, limlst=200, epsabs=1e-13)
    return v / math.pi, e / math.pi


def ft_3d(rho, k, support=None):
    """S(k) = 1/(2 pi^2 k) int_0^inf r rho(r) sin(k r) dr (k > 0),
    S(0) = 1/(2 pi^2) int r^2 rho(r) dr."""
    hi = support if support is not None else np.inf
    if k == 0.0:
        v, e = integrate.quad(lambda r: r * r * rho(r), 0, hi, limit=400, epsabs=0, epsrel=1e-12)
        return v / (2 * math.pi**2), e / (2 * math.pi**2)
    f = lambda r: r * rho(r)  # noqa: E731
    if np.isfinite(hi):
        v, e = integrate.quad(f, 0, hi, weight="sin", wvar=k, limit=400, epsabs=0, epsrel=1e-12)
    else:
        v, e = integrate.quad(f, 0, np.inf, weight="sin", wvar=k, limit=400, limlst=200, epsabs=1e-13)
    c = 2 * math.pi**2 * k
    return v / c, e / c


def wynn_epsilon(s):
    """Wynn's epsilon algorithm on a sequence of partial sums; returns the
    last even-column estimate and the difference to the previous one."""
    s = [float(v) for v in s]
    n = len(s)
    e_prev = [0.0] * (n + 1)
    e_cur = list(s)
    best, last = s[-1], s[-2] if n > 1 else s[-1]
    col = 0
    while len(e_cur) > 1:
        nxt = []
        for j in range(len(e_cur) - 1):
            d = e_cur[j + 1] - e_cur[j]
            if d == 0.0:
                # converged to rounding: the sequence is stationary
                return e_cur[j + 1], 0.0
            nxt.append(e_prev[j + 1] + 1.0 / d)
        e_prev, e_cur = e_cur, nxt
        col += 1
        if col % 2 == 0 and e_cur:
            last, best = best, e_cur[-1]
    return best, abs(best - last)


def ft_2d(rho_vec, k, support=None, scale=1.0, nzero=60, n=24):
    """S(k) = 1/(2 pi) int_0^inf r rho(r) J0(k r) dr.

    k > 0: integration between consecutive zeros of J0 (Gauss-Legendre on each
    interval, the first one graded towards the origin), the alternating series
    of the contributions is summed with Wynn's epsilon algorithm.
    ``rho_vec`` is evaluated on arrays.  Returns (value, error estimate).
    """
    if k == 0.0:
        hi = support if support is not None else np.inf
        v, e = integrate.quad(lambda r: r * float(rho_vec(np.array([r]))[0]), 0, hi, limit=400, epsabs=0, epsrel=1e-12)
        return v / (2 * math.pi), e / (2 * math.pi)
    zeros = special.jn_zeros(0, nzero) / k
    if support is not None:
        zeros = zeros[zeros < support]
        edges = np.concatenate(([0.0], zeros, [support]))
    else:
        edges = np.concatenate(([0.0], zeros))
    terms = []
    for i in range(len(edges) - 1):
        lo, hi = edges[i], edges[i + 1]
        br = [lo, hi]
        if i == 0:
            br = list(dyadic(hi, 20))
        # structure of rho at ``scale`` inside a long interval (small k)
        m = int((hi - lo) / (2.0 * scale))
        if m > 0 and i > 0:
            br = list(np.linspace(lo, hi, min(m, 200) + 2))
        elif m > 0:
            br = br + list(np.linspace(lo, hi, min(m, 200) + 2))
        if support is not None and hi == support:
            br = br + [b for b in graded_to(support, 0.5 * (hi - lo), 20) if b > lo]
        x, w = composite_gl(br, n)
        terms.append(float(np.sum(w * x * rho_vec(x) * special.j0(k * x))))
    sums = np.cumsum(terms)
    if support is not None or len(sums) < 4:
        return sums[-1] / (2 * math.pi), 0.0
    tail = np.abs(terms[-6:]).max()
    if tail <= 1e-15 * max(np.abs(sums).max(), 1e-300):
        return sums[-1] / (2 * math.pi), tail / (2 * math.pi)
    # accelerate the tail only (start where the terms alternate regularly)
    val, err = wynn_epsilon(sums[-21:])
    return val / (2 * math.pi), err / (2 * math.pi)

"""Independent quadrature for the spectral checks (C04).

Nothing in here imports gstools.  Convention (documented in CovModel.spectrum):

    S(k) = (2 pi)^-d  int C(r) exp(i k.r) d^d r ,   spectral_density = S / var

Three tools

* composite Gauss-Legendre rules on *fixed* panels for the two sides of the
  Gaussian-weighted Parseval identity

      int S(k) exp(-a k^2) d^d k = (4 pi a)^(-d/2) int rho(r) exp(-r^2/(4a)) d^d r

  (both sides smooth, absolutely convergent radial integrals; the left side is
  the Laplace transform of the radial spectral measure in k^2, so the family
  over ``a`` determines S),
* a Gauss-Jacobi rule for a spectrum with an algebraic end point singularity
  on a compact support (J-Bessel),
* pointwise radial Fourier transforms: QUADPACK Fourier weights in d = 1, 3 and
  integration between consecutive zeros of J0 with Wynn's epsilon algorithm
  in d = 2.
"""

import functools
import math

import numpy as np
from scipy import integrate, special


def sphere_fac(dim):
    """Surface of the unit sphere S^(d-1): 2, 2 pi, 4 pi (re-derived, not rad_fac)."""
    return 2.0 * math.pi ** (dim / 2.0) / math.gamma(dim / 2.0)


def rad_weight(dim, r):
    """Radial volume element A_d r^(d-1) written out for d = 1, 2, 3."""
    r = np.asarray(r, dtype=float)
    if dim == 1:
        return np.full_like(r, 2.0)
    if dim == 2:
        return 2.0 * math.pi * r
    if dim == 3:
        return 4.0 * math.pi * r * r
    return sphere_fac(dim) * r ** (dim - 1)


@functools.lru_cache(maxsize=None)
def _gl(n):
    x, w = np.polynomial.legendre.leggauss(n)
    return x, w


def composite_gl(breaks, n=16):
    """Nodes and weights of the n-point Gauss-Legendre rule on every panel."""
    b = np.unique(np.asarray(breaks, dtype=float))
    lo, hi = b[:-1], b[1:]
    keep = hi > lo
    lo, hi = lo[keep], hi[keep]
    x, w = _gl(n)
    mid = 0.5 * (lo + hi)[:, None]
    half = 0.5 * (hi - lo)[:, None]
    return (mid + half * x[None, :]).ravel(), (half * w[None, :]).ravel()


def dyadic(hi, levels):
    """0 and hi * 2^-j, j = 0..levels (geometric grading towards the origin)."""
    return np.concatenate(([0.0], hi * 0.5 ** np.arange(levels, -1, -1)))


def graded_to(point, width, levels):
    """point - width * 2^-j, j = 0..levels (grading towards ``point`` from the left)."""
    return point - width * 0.5 ** np.arange(0, levels + 1)


T_CUT = 6.6  # exp(-T_CUT^2) = 1.2e-19: the Gaussian weight is cut below rounding


def k_rule(a, scale, n=16, osc_step=3.0, floor=0.02):
    """Rule for int_0^inf f(k) exp(-a k^2) dk-type integrals.

    Panels: dyadic from the cut-off down to floor/scale (a spectral density is
    smooth at the origin on the scale 1/scale; on a panel [c, 2c] it is analytic
    whatever power law it follows) united with uniform panels of width
    osc_step/scale (resolves the oscillation of spectra of compactly supported
    correlations, period 2 pi / scale).
    """
    kmax = T_CUT / math.sqrt(a)
    levels = max(0, int(math.ceil(math.log2(kmax * scale / floor))))
    br = [dyadic(kmax, levels)]
    step = osc_step / scale
    if step < kmax:
        br.append(np.arange(1, int(kmax / step) + 1) * step)
    b = np.concatenate(br)
    return composite_gl(b[b <= kmax], n)


def r_rule(a, scale, n=16, osc_step=3.0, r_floor=None, support=None):
    """Rule for int_r1^inf f(r) exp(-r^2/(4a)) dr-type integrals; returns (r, w, r1).

    Dyadic panels from the cut-off down to r1 <= r_floor (correlations behave
    like 1 - c r^beta at the origin; on a panel [c, 2c] they are analytic),
    uniform panels of width osc_step*scale (hole-effect correlations), and - for
    a compactly supported correlation - a break at the support radius with
    grading towards it (square-root type behaviour of the circular model).
    The innermost piece [0, r1] is left to the caller (see origin_bracket):
    libraries clamp the correlation to 1 below some tiny lag, so it must not be
    sampled there.
    """
    rmax = 2.0 * math.sqrt(a) * T_CUT
    if support is not None:
        rmax = min(rmax, support)
    if r_floor is None:
        r_floor = 2e-8 * scale
    levels = max(1, int(math.ceil(math.log2(rmax / r_floor))))
    br = [rmax * 0.5 ** np.arange(levels, -1, -1)]
    r1 = float(br[0][0])
    step = osc_step * scale
    if step < rmax:
        br.append(np.arange(1, int(rmax / step) + 1) * step)
    if support is not None and rmax >= support:
        br.append(graded_to(support, 0.5 * support, 24))
    b = np.concatenate(br)
    b = b[(b >= r1) & (b <= rmax)]
    r, w = composite_gl(b, n)
    return r, w, r1


def ball_volume(dim, r):
    """Volume of the d-ball of radius r: int_0^r A_d s^(d-1) ds."""
    return sphere_fac(dim) * r**dim / dim


def origin_bracket(dim, a, r1, rho1):
    """Bracket of (4 pi a)^(-d/2) int_{|r|<r1} rho exp(-r^2/4a) d^d r.

    Uses only rho(r1) <= rho(r) <= 1 on [0, r1] (r1 is tiny against the
    correlation length).  Returns (mid point, half width).
    """
    vol = ball_volume(dim, r1) / (4.0 * math.pi * a) ** (dim / 2.0)
    g1 = math.exp(-r1 * r1 / (4.0 * a))
    lo = vol * min(rho1, 1.0) * g1
    hi = vol * 1.0
    return 0.5 * (lo + hi), 0.5 * (hi - lo)


def jacobi_rule(kmax, p, n=96):
    """Gauss-Jacobi rule for int_0^kmax g(k) (1 - k/kmax)^p dk, p > -1.

    Returns nodes k_i, weights w_i such that the integral is
    sum_i w_i g(k_i); the caller divides its integrand by (1 - k/kmax)^p.
    Also returned: t_i = 1 - k_i/kmax computed without cancellation.
    """
    x, w = special.roots_jacobi(n, p, 0.0)
    # x in (-1, 1), weight (1-x)^p ; k = kmax (1+x)/2 ; 1 - k/kmax = (1-x)/2
    t = 0.5 * (1.0 - x)
    k = kmax * 0.5 * (1.0 + x)
    wk = w * kmax * 0.5 / 2.0**p
    return k, wk, t


def gauss_side_rhs(dim, a, r, w, rho):
    """(4 pi a)^(-d/2) int rho(r) exp(-r^2/4a) d^d r from nodes/weights/values."""
    g = np.exp(-(r * r) / (4.0 * a))
    return float(np.sum(w * rad_weight(dim, r) * g * rho)) / (4.0 * math.pi * a) ** (dim / 2.0)


def gauss_side_lhs(dim, a, k, w, dens):
    """int S(k) exp(-a k^2) d^d k from nodes/weights/values."""
    return float(np.sum(w * rad_weight(dim, k) * np.exp(-a * k * k) * dens))


# ---------------------------------------------------------------------------
# pointwise radial Fourier transforms


def _q(f, lo, hi, **kw):
    return integrate.quad(f, lo, hi, limit=400, **kw)


def _fourier_half_line(f, k, kind, scale, support):
    """int_0^inf f(r) cos|sin(k r) dr through QUADPACK's Fourier rules.

    Finite part [0, R0] with QAWO (weight on a finite interval), the monotone
    tail [R0, inf) with QAWF.  Returns (value, error estimate).
    """
    if support is not None:
        v, e = _q(f, 0.0, support, weight=kind, wvar=k, epsabs=0.0, epsrel=1e-12)
        return v, e
    r0 = 30.0 * scale
    v1, e1 = _q(f, 0.0, r0, weight=kind, wvar=k, epsabs=0.0, epsrel=1e-12)
    scale_v = abs(v1) + 1e-300
    v2, e2 = integrate.quad(
        f, r0, np.inf, weight=kind, wvar=k, limit=400, limlst=400, epsabs=1e-13 * scale_v
    )
    return v1 + v2, e1 + e2


def half_line_integral(f, scale, support):
    """int_0^inf f(r) dr for a function living on ``scale`` (or on [0, support])."""
    if support is not None:
        return _q(f, 0.0, support, epsabs=0.0, epsrel=1e-12)
    r0 = 30.0 * scale
    v1, e1 = _q(f, 0.0, r0, epsabs=0.0, epsrel=1e-12, points=[scale])
    v2, e2 = _q(f, r0, np.inf, epsabs=1e-13 * (abs(v1) + 1e-300), epsrel=1e-10)
    return v1 + v2, e1 + e2


def ft_1d(rho, k, scale, support=None):
    """S(k) = 1/pi int_0^inf rho(r) cos(k r) dr; returns (value, error estimate)."""
    if k == 0.0:
        v, e = half_line_integral(rho, scale, support)
    else:
        v, e = _fourier_half_line(rho, k, "cos", scale, support)
    return v / math.pi, e / math.pi


def ft_3d(rho, k, scale, support=None):
    """S(k) = 1/(2 pi^2 k) int_0^inf r rho(r) sin(k r) dr (k > 0),
    S(0) = 1/(2 pi^2) int_0^inf r^2 rho(r) dr."""
    if k == 0.0:
        v, e = half_line_integral(lambda r: r * r * rho(r), scale, support)
        c = 2.0 * math.pi**2
    else:
        v, e = _fourier_half_line(lambda r: r * rho(r), k, "sin", scale, support)
        c = 2.0 * math.pi**2 * k
    return v / c, e / c


def wynn_epsilon(s):
    """Wynn's epsilon algorithm on partial sums; returns (estimate, |change|
    between the last two even columns reached)."""
    e_prev = [0.0] * (len(s) + 1)
    e_cur = [float(v) for v in s]
    best = last = e_cur[-1]
    col = 0
    while len(e_cur) > 1:
        nxt = []
        for j in range(len(e_cur) - 1):
            d = e_cur[j + 1] - e_cur[j]
            if d == 0.0:
                return (e_cur[j + 1], 0.0) if col % 2 == 0 else (best, abs(best - last))
            nxt.append(e_prev[j + 1] + 1.0 / d)
        e_prev, e_cur = e_cur, nxt
        col += 1
        if col % 2 == 0:
            last, best = best, e_cur[-1]
    return best, abs(best - last)


def ft_2d(rho_vec, k, scale, support=None, nzero=120, n=24):
    """S(k) = 1/(2 pi) int_0^inf r rho(r) J0(k r) dr; returns (value, error estimate).

    k > 0: Gauss-Legendre between consecutive zeros of J0 (first interval graded
    towards the origin, long intervals subdivided on the correlation scale); the
    alternating series of the contributions is summed with Wynn's epsilon
    algorithm when it has not died out.  ``rho_vec`` is evaluated on one array.
    """
    if k == 0.0:
        v, e = half_line_integral(lambda r: r * float(rho_vec(np.array([r]))[0]), scale, support)
        return v / (2 * math.pi), e / (2 * math.pi)
    zeros = special.jn_zeros(0, nzero) / k
    if support is not None:
        edges = np.concatenate(([0.0], zeros[zeros < support], [support]))
    else:
        edges = np.concatenate(([0.0], zeros))
    xs, ws, owner = [], [], []
    for i in range(len(edges) - 1):
        lo, hi = edges[i], edges[i + 1]
        br = [np.array([lo, hi])]
        if i == 0:
            br.append(dyadic(hi, 30)[1:])
        m = int((hi - lo) / (2.0 * scale))
        if m > 0:
            br.append(np.linspace(lo, hi, min(m, 400) + 2))
        if support is not None and hi == support:
            g = graded_to(support, 0.5 * (hi - lo), 24)
            br.append(g[g > lo])
        x, w = composite_gl(np.concatenate(br), n)
        xs.append(x)
        ws.append(w)
        owner.append(np.full(x.size, i))
    x = np.concatenate(xs)
    w = np.concatenate(ws)
    owner = np.concatenate(owner)
    vals = w * x * np.asarray(rho_vec(x), dtype=float) * special.j0(k * x)
    terms = np.bincount(owner, weights=vals, minlength=len(edges) - 1)
    sums = np.cumsum(terms)
    c = 2 * math.pi
    if support is not None or len(sums) < 8:
        return sums[-1] / c, 1e-14 * np.abs(terms).sum() / c
    tail = np.abs(terms[-6:]).max()
    if tail <= 1e-15 * np.abs(terms).max():
        return sums[-1] / c, 1e-14 * np.abs(terms).sum() / c
    val, err = wynn_epsilon(sums[-25:])
    return val / c, (err + 1e-14 * np.abs(terms).sum()) / c

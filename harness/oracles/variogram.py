"""Brute-force empirical variogram: every pair, documented formulas.

Nothing in here imports gstools or numpy: plain python floats and ``math``
(the same libm the compiled kernel links against), so that a distance is the
*same double* the kernel sees and membership in a half-open bin
``[e_i, e_{i+1})`` is decided identically.  The operation order of the
distance / projection formulas follows ``estimator.pyx`` (this is the only
thing taken from the source; everything else is the documentation):

* Matheron  ``gamma_i = sum (z - z')^2 / (2 N_i)``
* Cressie   ``gamma_i = 0.5 (sum |z - z'|^0.5 / N_i)^4 / (0.457 + 0.494/N_i + 0.045/N_i^2)``
* bins      ``e_i <= dist < e_{i+1}``; an empty bin has value 0 and count 0
* pairs     every unordered pair once, per field; a pair is skipped for a field
  when either value is NaN in that field
* direction a pair belongs to direction ``d`` when the angle between the pair
  vector and the *line* spanned by ``d`` (absolute cosine) is ``< tol`` and,
  with a bandwidth, the distance of the pair vector to that line is
  ``< bandwidth``; coincident points (distance 0) belong to every direction
* along-axis lag ``k`` pools all ``(i, i+k)`` pairs of every column; with a mask
  both ends must be unmasked; lag 0 is 0.

Besides values and counts every estimator returns an ``info`` dict that says how
close the case is to a discontinuity (pairs within ``REL`` of an edge / angular
/ band threshold), how many pairs sit exactly on an edge, how many are
coincident, and so on.  The property module uses it to discard float ties and
to label cases.
"""

import math

REL = 1e-12  # relative closeness that makes a float comparison "a tie"
DEG2RAD = math.pi / 180.0


# ---------------------------------------------------------------------------
# helpers


def is_nan(x):
    return x != x


def exact_coords(pos):
    """All coordinates are multiples of 2^-10 below 4096 in magnitude.

    Differences, squares and their sums are then exact doubles and ``sqrt`` is
    correctly rounded, so distances are the correctly rounded true distances.
    """
    for ax in pos:
        for x in ax:
            if not (abs(x) <= 4096.0 and float(x * 1024.0).is_integer()):
                return False
    return True


def axis_direction(dvec):
    """Unit vector along a coordinate axis (all arithmetic with it is exact)."""
    nz = [c for c in dvec if c != 0.0]
    return len(nz) == 1 and abs(nz[0]) == 1.0


def normalise(direction):
    """Rows scaled to unit length (what the documentation calls 'normed')."""
    out = []
    for row in direction:
        s = 0.0
        for c in row:
            s += c * c
        n = math.sqrt(s)
        out.append([c / n for c in row])
    return out


def dist_euclid(pos, i, j):
    s = 0.0
    for ax in pos:
        s += (ax[i] - ax[j]) * (ax[i] - ax[j])
    return math.sqrt(s)


def haversine_arg(pos, i, j):
    """Haversine of the central angle; pos = (lat, lon) in degrees."""
    lat, lon = pos[0], pos[1]
    diff_lat = (lat[j] - lat[i]) * DEG2RAD
    diff_lon = (lon[j] - lon[i]) * DEG2RAD
    return (
        math.pow(math.sin(diff_lat / 2.0), 2)
        + math.cos(lat[i] * DEG2RAD)
        * math.cos(lat[j] * DEG2RAD)
        * math.pow(math.sin(diff_lon / 2.0), 2)
    )


def dist_haversine(pos, i, j):
    """Great-circle distance in radians and the haversine argument.

    Mathematically ``arg`` lies in [0, 1]; rounding can push it above 1 for
    antipodal points, where the distance is pi.  (The argument is returned so
    that the caller can recognise that situation.)
    """
    arg = haversine_arg(pos, i, j)
    rest = 1.0 - arg
    if rest < 0.0:
        rest = 0.0
    return 2.0 * math.atan2(math.sqrt(arg), math.sqrt(rest)), arg


def find_bin(edges, dist):
    """Index i with e_i <= dist < e_{i+1}, or -1."""
    for i in range(len(edges) - 1):
        if edges[i] <= dist < edges[i + 1]:
            return i
    return -1


def finish(sums, counts, estimator):
    """Normalisation of the accumulated sums (empty bin -> 0)."""
    out = []
    for s, n in zip(sums, counts):
        if n == 0:
            out.append(0.0)
        elif estimator == "matheron":
            out.append(s / (2.0 * n))
        elif estimator == "cressie":
            out.append(0.5 * (1.0 / n * s) ** 4 / (0.457 + 0.494 / n + 0.045 / n**2))
        else:
            raise ValueError(estimator)
    return out


def _term(diff, estimator):
    if estimator == "matheron":
        return diff * diff
    return math.sqrt(abs(diff))


def _new_info():
    return {
        "pairs": 0,  # pairs with at least one field where both values are valid
        "near_edge": 0,  # pairs within REL of an edge (float data only)
        "on_edge": 0,  # pairs whose distance equals an edge exactly
        "zero_pairs": 0,  # coincident pairs (distance exactly 0) with valid data
        "zero_pairs_binned": 0,  # ... that fall into a bin
        "nan_dist": 0,  # haversine argument rounded above 1
        "near_angle": 0,
        "near_band": 0,
        "perp_pairs": 0,  # exactly perpendicular to a direction
        "band_edge": 0,  # inside the angle and exactly on the band limit
        "band_rejects": 0,  # inside the angle, outside the band
        "multi_dir_pairs": 0,  # non coincident pairs that belong to >= 2 directions
        "nan_skips": 0,  # (pair, field) combinations skipped because of NaN
        "in_bins": 0,
    }


def _edge_info(info, edges, dist, exact):
    """Ties of one distance with the edges.

    Exact data (or a coincident pair, distance exactly 0): an equality is an
    exact tie (``on_edge``).  Otherwise anything within REL of an edge,
    including an equality, is a float tie (``near_edge``).
    """
    for e in edges:
        if exact or dist == 0.0:
            if dist == e:
                info["on_edge"] += 1
        elif abs(dist - e) <= REL * max(abs(e), dist):
            info["near_edge"] += 1


def _valid_fields(fields, j, k):
    out = []
    for m, f in enumerate(fields):
        if not (is_nan(f[k]) or is_nan(f[j])):
            out.append(m)
    return out


# ---------------------------------------------------------------------------
# isotropic


def unstructured(
    fields, edges, pos, estimator="matheron", distance="euclid", nan_dist_all_bins=False, exact_edges=True
):
    """Isotropic estimate: (values, counts, info).

    ``nan_dist_all_bins=True`` reproduces one specific *defective* behaviour for
    classification only: a pair whose haversine argument was rounded above 1
    (distance NaN in a naive implementation) is put into every bin.
    """
    nb = len(edges) - 1
    n = len(pos[0])
    sums = [0.0] * nb
    counts = [0] * nb
    info = _new_info()
    # exact_edges=False: the edges are themselves computed (standard bins)
    exact = distance == "euclid" and exact_edges and exact_coords(pos)
    for j in range(n - 1):
        for k in range(j + 1, n):
            nan_dist = False
            if distance == "euclid":
                dist = dist_euclid(pos, j, k)
            else:
                dist, arg = dist_haversine(pos, j, k)
                nan_dist = arg > 1.0
            valid = _valid_fields(fields, j, k)
            info["nan_skips"] += len(fields) - len(valid)
            if not valid:
                continue
            info["pairs"] += 1
            if nan_dist:
                info["nan_dist"] += 1
            _edge_info(info, edges, dist, exact)
            if nan_dist and nan_dist_all_bins:
                bins = list(range(nb))
            else:
                b = find_bin(edges, dist)
                bins = [b] if b >= 0 else []
            if dist == 0.0:
                info["zero_pairs"] += 1
                if bins:
                    info["zero_pairs_binned"] += 1
            if bins:
                info["in_bins"] += 1
            for b in bins:
                for m in valid:
                    counts[b] += 1
                    sums[b] += _term(fields[m][k] - fields[m][j], estimator)
    info["exact"] = exact
    info["nonempty_bins"] = sum(1 for c in counts if c > 0)
    return finish(sums, counts, estimator), counts, info


# ---------------------------------------------------------------------------
# directional


def pair_in_direction(pos, j, k, dist, dvec, tol, bandwidth, exact, info):
    """Does the pair (j, k) belong to the direction ``dvec`` (unit vector)?"""
    dim = len(pos)
    diff = [pos[c][k] - pos[c][j] for c in range(dim)]
    s_prod = 0.0
    for c in range(dim):
        s_prod += diff[c] * dvec[c]
    exact_d = exact and axis_direction(dvec)
    in_band = True
    on_limit = False
    if bandwidth is not None and bandwidth > 0.0:
        b2 = 0.0
        for c in range(dim):
            t = diff[c] - s_prod * dvec[c]
            b2 += t * t
        bd = math.sqrt(b2)
        in_band = bd < bandwidth
        on_limit = bd == bandwidth
        if dist > 0.0 and not exact_d:
            if abs(bd - bandwidth) <= REL * max(dist, bandwidth):
                info["near_band"] += 1
    in_angle = True
    if dist > 0.0:
        c_abs = abs(s_prod) / dist
        if c_abs == 0.0:
            # exactly perpendicular: the angle is acos(0) = fl(pi/2); inside only for a tolerance beyond a right angle
            in_angle = math.acos(0.0) < tol
            info["perp_pairs"] += 1
        elif c_abs < 1.0:
            ang = math.acos(c_abs)
            in_angle = ang < tol
            if abs(ang - tol) <= REL / math.sin(min(tol, math.pi / 2)):
                info["near_angle"] += 1
    if in_angle and not in_band:
        info["band_rejects"] += 1
        if on_limit:
            info["band_edge"] += 1
    return in_band and in_angle


def directional(
    fields,
    edges,
    pos,
    direction,
    tol,
    bandwidth=None,
    estimator="matheron",
    zero_dist_first_only=False,
):
    """Directional estimate for unit ``direction`` rows: (values[d][i], counts[d][i], info).

    ``zero_dist_first_only=True`` reproduces one specific *defective* behaviour
    for classification only: coincident pairs are given to the first direction
    alone instead of to every direction.
    """
    nb = len(edges) - 1
    nd = len(direction)
    n = len(pos[0])
    sums = [[0.0] * nb for _ in range(nd)]
    counts = [[0] * nb for _ in range(nd)]
    info = _new_info()
    exact = exact_coords(pos)
    for j in range(n - 1):
        for k in range(j + 1, n):
            dist = dist_euclid(pos, j, k)
            valid = _valid_fields(fields, j, k)
            info["nan_skips"] += len(fields) - len(valid)
            if not valid:
                continue
            info["pairs"] += 1
            _edge_info(info, edges, dist, exact)
            b = find_bin(edges, dist)
            if dist == 0.0:
                info["zero_pairs"] += 1
                if b >= 0:
                    info["zero_pairs_binned"] += 1
            if b < 0:
                continue
            info["in_bins"] += 1
            hits = 0
            for d in range(nd):
                if not pair_in_direction(pos, j, k, dist, direction[d], tol, bandwidth, exact, info):
                    continue
                hits += 1
                if zero_dist_first_only and dist == 0.0 and d > 0:
                    continue
                for m in valid:
                    counts[d][b] += 1
                    sums[d][b] += _term(fields[m][k] - fields[m][j], estimator)
            if hits >= 2 and dist > 0.0:
                info["multi_dir_pairs"] += 1
    info["exact"] = exact
    info["nonempty_bins"] = max((sum(1 for c in row if c > 0) for row in counts), default=0)
    return [finish(s, c, estimator) for s, c in zip(sums, counts)], counts, info


def line_angle(u, v):
    """Angle in [0, pi/2] between the lines spanned by two unit vectors."""
    s = 0.0
    for a, b in zip(u, v):
        s += a * b
    return math.acos(min(abs(s), 1.0))


def separation(direction, tol):
    """(separated, margin): do the tolerance cones of all direction pairs not overlap?

    Cones of half-angle ``tol`` around two lines are disjoint iff the angle
    between the lines is >= 2 tol.  ``margin`` is the smallest
    ``angle - 2 tol`` over all pairs (inf for fewer than two directions).
    """
    margin = math.inf
    for i in range(len(direction) - 1):
        for j in range(i + 1, len(direction)):
            margin = min(margin, line_angle(direction[i], direction[j]) - 2.0 * tol)
    return margin >= 0.0, margin


# ---------------------------------------------------------------------------
# along an axis of a regular grid


def _unravel(shape):
    """C-order strides of a shape."""
    strides = [1] * len(shape)
    for a in range(len(shape) - 2, -1, -1):
        strides[a] = strides[a + 1] * shape[a + 1]
    return strides


def axis_estimate(flat, shape, axis, estimator="matheron", mask=None):
    """Along-axis estimate on a regular grid.

    ``flat`` / ``mask`` are C-order flattened lists; NaN values are *not*
    treated specially here (the caller turns them into mask entries, which is
    what the documentation of ``vario_estimate_axis`` says).  Returns
    (values, counts) of length ``shape[axis]``; lag 0 has value 0, count 0.
    """
    nd = len(shape)
    strides = _unravel(shape)
    na = shape[axis]
    others = [a for a in range(nd) if a != axis]
    # enumerate columns (all index combinations of the other axes)
    cols = [0]
    for a in others:
        cols = [c + i * strides[a] for c in cols for i in range(shape[a])]
    sums = [0.0] * na
    counts = [0] * na
    st = strides[axis]
    for i in range(na - 1):
        for base in cols:
            p = base + i * st
            if mask is not None and mask[p]:
                continue
            for k in range(1, na - i):
                q = p + k * st
                if mask is not None and mask[q]:
                    continue
                counts[k] += 1
                sums[k] += _term(flat[p] - flat[q], estimator)
    return finish(sums, counts, estimator), counts


# ---------------------------------------------------------------------------
# standard bins (documented rule of ``standard_bins`` for Euclidean input)


def standard_bins_euclid(pos, bin_no):
    """``bin_no`` equal bins from 0 to one third of the diameter of the bounding box."""
    s = 0.0
    for ax in pos:
        s += (min(ax) - max(ax)) ** 2
    max_dist = math.sqrt(s) / 3
    return [max_dist * i / bin_no for i in range(bin_no + 1)]

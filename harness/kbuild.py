"""Build serial and OpenMP variants of the compiled kernels from the *current*
generated C/C++ sources in $VERIF_REPO/src/gstools (no Cython in this sandbox).

Artefacts go to /verif/.build/<sha256 of source>/<variant>/<module>.so and are
reused while the source is unchanged.
"""

import hashlib
import importlib.machinery
import importlib.util
import os
import subprocess
import sys
import sysconfig

import numpy as np

import common

MODULES = {
    "summator": ("field/summator.c", "gcc"),
    "krigesum": ("krige/krigesum.c", "gcc"),
    "estimator": ("variogram/estimator.cpp", "g++"),
}
EXT = sysconfig.get_config_var("EXT_SUFFIX") or ".so"


def src_path(mod):
    return os.path.join(common.REPO, "src", "gstools", MODULES[mod][0])


def installed_so(mod):
    d = os.path.dirname(src_path(mod))
    return os.path.join(d, mod + EXT)


def _hash(path):
    h = hashlib.sha256()
    with open(path, "rb") as f:
        for blk in iter(lambda: f.read(1 << 20), b""):
            h.update(blk)
    return h.hexdigest()[:20]


def build(mod, variant):
    """Return path of the built shared object (building it when missing)."""
    src = src_path(mod)
    if not os.path.exists(src):
        raise common.HarnessError(f"generated source missing: {src}")
    out_dir = os.path.join(common.VERIF_DIR, ".build", _hash(src), variant)
    out = os.path.join(out_dir, mod + EXT)
    if os.path.exists(out):
        return out
    os.makedirs(out_dir, exist_ok=True)
    cc = MODULES[mod][1]
    cmd = [
        cc, "-O2", "-shared", "-fPIC", "-w",
        "-DNPY_NO_DEPRECATED_API=NPY_1_7_API_VERSION",
        "-I" + sysconfig.get_paths()["include"],
        "-I" + np.get_include(),
        src, "-o", out + ".tmp",
    ]
    if variant == "omp":
        cmd.insert(1, "-fopenmp")
    p = subprocess.run(cmd, capture_output=True, text=True)
    if p.returncode != 0:
        raise common.HarnessError(f"compiling {src} ({variant}) failed:\n{p.stderr[-2000:]}")
    os.replace(out + ".tmp", out)
    return out


def build_all(jobs=6):
    from concurrent.futures import ThreadPoolExecutor

    tasks = [(m, v) for m in MODULES for v in ("serial", "omp")]
    with ThreadPoolExecutor(jobs) as ex:
        res = list(ex.map(lambda t: (t, build(*t)), tasks))
    return dict(res)


_loaded = {}


def load(mod, variant):
    """Import one variant ('installed', 'serial', 'omp') as an independent module object."""
    key = (mod, variant)
    if key in _loaded:
        return _loaded[key]
    path = installed_so(mod) if variant == "installed" else build(mod, variant)
    if not os.path.exists(path):
        raise common.HarnessError(f"shared object missing: {path}")
    loader = importlib.machinery.ExtensionFileLoader(mod, path)
    spec = importlib.util.spec_from_file_location(mod, path, loader=loader)
    m = importlib.util.module_from_spec(spec)
    loader.exec_module(m)
    _loaded[key] = m
    return m
